#!/bin/sh
# offline setup: nothing to build; verify the interpreter, the repo and scratch space
set -e
REPO="${VERIF_REPO:-/repo}"
test -x /venv/bin/python
test -d "$REPO/modules/pel"
SCR="${VERIF_SCRATCH:-/dev/shm}"
test -w "$SCR"
PYTHONDONTWRITEBYTECODE=1 /venv/bin/python - <<PY
import sys
sys.path.insert(0, "$REPO/modules")
import pel.peltool.peltool
print("setup ok:", sys.version.split()[0], pel.peltool.peltool.__file__)
PY
