#!/bin/sh
# regenerate /verif/evidence/*.json from real runs of the registered quick commands against /repo, then validate
cd /verif
for c in C04 C05 C08 C09 C10 C11 C12 C18 C19; do ./check $c --tier quick > /dev/shm/regen.log 2>&1; echo "$c rc=$? $(tail -1 /dev/shm/regen.log | cut -c1-120)"; done
python3-vt - <<'PY'
import json, jsonschema, glob
sch = json.load(open('/root/.vp/EVIDENCE.schema.json'))
for f in sorted(glob.glob('/verif/evidence/*.json')):
    jsonschema.validate(json.load(open(f)), sch)
jsonschema.validate(json.load(open('/verif/MANIFEST.json')), json.load(open('/root/.vp/MANIFEST.schema.json')))
print("evidence + manifest valid")
PY
