#!/bin/sh
# usage: mut.sh <prop> <patchfile|-e sedexpr file> ... ; runs the quick check against a scratch copy of /repo with the patch
# mut.sh C08 patch.diff   |   mut.sh C08 -s 's/a/b/' modules/pel/peltool/peltool.py
PROP=$1; shift
D=/dev/shm/verif-mut-$$
rm -rf $D; mkdir -p $D; cp -r /repo/modules /repo/setup.py $D/ 2>/dev/null
if [ "$1" = "-s" ]; then sed -i "$2" $D/$3; (cd /repo && diff -u $3 $D/$3 | head -30)
else P=$(realpath "$1"); (cd $D && patch -p1 -s < "$P") || { echo "patch failed"; rm -rf $D; exit 3; }
fi
cd /verif && VERIF_EVIDENCE_DIR=$D/out VERIF_REPLAY_DIR=$D/out VERIF_REPO=$D ./check $PROP ${RUNS:+--runs $RUNS} 2>&1 | grep -v "^    " | cut -c1-700 | tail -${TAIL:-12}
rc=$?
rm -rf $D
