#!/bin/sh
# sweep.sh FIRST LAST : every quick check for every seed in [FIRST,LAST] on the unchanged tree; prints non-zero exits
# (evidence/replays redirected so that the committed evidence is not overwritten)
cd /verif
OUT=/dev/shm/verif-sweep-out; mkdir -p $OUT
for s in $(seq $1 $2); do for c in C04 C05 C08 C09 C10 C11 C12 C18 C19; do
  VERIF_EVIDENCE_DIR=$OUT VERIF_REPLAY_DIR=$OUT ./check $c --seed $s > $OUT/log 2>&1; rc=$?
  tail -1 $OUT/log | cut -c1-140
  if [ $rc -ne 0 ]; then echo "NONZERO rc=$rc $c seed=$s"; grep -E "^violation|HARNESS|Error" $OUT/log | head -5 | cut -c1-400; fi
done; done
