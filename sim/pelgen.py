"""
By-construction generator of *well-formed* PELs (workload, not the thing being
verified).  A PEL is described by a JSON-serialisable *recipe*; `build(recipe)`
turns it into bytes and `facts(recipe)` returns the ground truth that the
reference models use (ids, reference code, class, per-section payloads).
Every byte of the result is covered by a declared length, so every proper
prefix lacks a byte the decoder needs.

Nothing here imports the repository.
"""
import json
import struct

KNOWN_CREATORS = "BCHKLMOPST"
HEXDUMP_ONLY_IDS = ["DH", "SW", "LR", "HM", "EP", "IE", "MI", "CH", "EI"]
# legal-looking ids that are not in the section-name table -> 'Unknown'
UNKNOWN_IDS = ["ZZ", "XQ", "AB", "U1", "Q7"]

SEVERITIES = [0x00, 0x10, 0x20, 0x21, 0x22, 0x23, 0x24, 0x40, 0x41, 0x44,
              0x45, 0x48, 0x50, 0x51, 0x52, 0x53, 0x54, 0x55, 0x60, 0x61,
              0x71]
SUBSYSTEMS = [0x10, 0x20, 0x23, 0x30, 0x46, 0x50, 0x58, 0x62, 0x7A, 0x81, 0x99]

_PRINTABLE = "ABCDEFGHIJKLMNOPQRSTUVWXYZ0123456789-_."


def _ascii(rng, n, pad_to=None, alphabet=_PRINTABLE):
    s = "".join(rng.choice(alphabet) for _ in range(n))
    if pad_to is not None:
        s = s.ljust(pad_to, "\x00")
    return s


def _bcd_time(rng):
    y = rng.randint(2019, 2031)
    mo, d = rng.randint(1, 12), rng.randint(1, 28)
    h, mi, s, hs = rng.randint(0, 23), rng.randint(0, 59), rng.randint(0, 59), rng.randint(0, 99)
    return "%04d%02d%02d%02d%02d%02d%02d" % (y, mo, d, h, mi, s, hs)


# --------------------------------------------------------------------------
# classes of (severity, action flags)
# --------------------------------------------------------------------------
def class_of(severity, action):
    hidden = bool(action & 0x4000)
    if severity != 0x00:
        serviceable = bool(action & 0x2000) and not hidden
    else:
        serviceable = bool(action & 0x8000)
    return {"hidden": hidden, "serviceable": serviceable}


def gen_class(rng, want=None):
    """returns (severity, action).  want in {None,'serviceable','hidden',
    'info','nonserv'}"""
    want = want or rng.choice(["serviceable", "serviceable", "hidden", "info", "nonserv", "term"])
    extra = rng.choice([0, 0x0800, 0x1000, 0x0400, 0x0100, 0x0020, 0x0900])
    if want == "serviceable":
        sev = rng.choice([s for s in SEVERITIES if s != 0])
        return sev, 0x2000 | (rng.choice([0, 0x8000])) | extra
    if want == "hidden":
        sev = rng.choice(SEVERITIES)
        return sev, 0x4000 | rng.choice([0, 0x2000, 0x8000 if sev else 0]) | extra
    if want == "info":
        return 0x00, rng.choice([0, 0x2000]) | extra
    if want == "nonserv":
        sev = rng.choice([s for s in SEVERITIES if s != 0])
        return sev, rng.choice([0, 0x8000]) | extra
    if want == "term":
        return 0x51, rng.choice([0x2000, 0xA000, 0x4000, 0]) | extra
    raise ValueError(want)


# --------------------------------------------------------------------------
# recipe generation
# --------------------------------------------------------------------------
def gen_refcode(rng, creator, pool=None):
    if pool:
        return rng.choice(pool)
    if creator == "O":
        head = rng.choice(["BD", "BD", "BD", "11", "BC"])
    elif creator == "B":
        head = "BC"
    elif creator == "H":
        head = "B7"
    else:
        head = rng.choice(["B1", "B2", "A7", "C1", "BC", "BD"])
    comp = rng.choice(["8D", "E5", "20", "75", "9A", "A1"])
    return head + comp + "%04X" % rng.randrange(0x10000) + rng.choice(["", "", "", "", " LIC", " 00000001"])


def gen_callout(rng):
    c = {"flags": rng.choice([0x00, 0x01, 0x80, 0x3F]),
         "priority": rng.choice([0x48, 0x4D, 0x41, 0x42, 0x43, 0x4C, 0x5A]),
         "loc": _ascii(rng, rng.choice([0, 0, 4, 7, 12, 20]))}
    # pad location code to a multiple of 4 with NULs like the BMC does
    if c["loc"] and len(c["loc"]) % 4:
        c["loc_pad"] = 4 - len(c["loc"]) % 4
    else:
        c["loc_pad"] = 0
    which = rng.choice(["fru", "fru", "fru", "fru+pce", "fru+mru", "fru+pce+mru", "none", "pce", "mru"])
    if "fru" in which:
        kind = rng.choice(["pn", "proc", "pn+ccin", "pn+ccin+sn", "proc", "bare", "ccin+sn"])
        fl = rng.choice([0x10, 0x20, 0x30, 0x40, 0x90, 0xA0, 0x00])
        fru = {"hi": fl}
        if "pn" in kind:
            fru["pn"] = _ascii(rng, rng.randint(1, 7))
        if "proc" in kind:
            fru["proc"] = rng.choice(["BMC0001", "BMC0002", "BMC0004", "BMC0008", "NEXTLVL", "FSI0001", _ascii(rng, 7)])
        if "ccin" in kind:
            fru["ccin"] = _ascii(rng, rng.randint(1, 4))
        if "sn" in kind:
            fru["sn"] = _ascii(rng, rng.randint(1, 12))
        c["fru"] = fru
    if "pce" in which:
        c["pce"] = {"flags": rng.randrange(256), "mt": _ascii(rng, rng.randint(1, 8)),
                    "sn": _ascii(rng, rng.randint(1, 12)),
                    "name": _ascii(rng, rng.choice([1, 4, 8, 13]))}  # a zero-length name trips get_mem(0) (DESIGN §10)
    if "mru" in which:
        n = rng.choice([0, 1, 2, 3, 4, 15])
        c["mru"] = {"hi": rng.choice([0, 0x10, 0xF0]),
                    "items": [[rng.randrange(1 << 32), rng.randrange(1 << 32)] for _ in range(n)],
                    "reserved": rng.randrange(1 << 32)}
    return c


def gen_src(rng, sid, creator, refcode_pool=None, callouts=None, comp=None):
    rc = gen_refcode(rng, creator, refcode_pool)
    ncall = rng.choice([0, 0, 1, 2, 3]) if callouts is None else callouts
    if callouts is None and rng.random() < 0.04:
        ncall = rng.randint(6, 10)          # the format allows up to 10 callouts
    return {"kind": "src", "id": sid, "ver": 1, "subtype": rng.choice([0, 1]),
            "comp": comp if comp is not None else rng.choice([0x2000, 0x1000, 0xE500, 0x8D00, 0x3500]),
            "srcver": rng.choice([2, 2, 1]),
            "flags": rng.choice([0x00, 0x80, 0x10, 0x04, 0x08, 0x02]),
            "wordcount": rng.choice([9, 9, 9, 5, 2, 1]),
            "res1": 0, "res2": 0,
            "words": [rng.randrange(1 << 32) for _ in range(8)],
            "ascii": rc.ljust(32),
            "callouts": [gen_callout(rng) for _ in range(ncall)] if ncall else None}


def gen_payload(rng, lo=1, hi=200):
    n = rng.choice([rng.randint(lo, min(hi, 16)), rng.randint(lo, hi), 16, 17, 32])
    n = max(lo, min(hi, n))
    style = rng.choice(["rand", "rand", "ascii", "zeros", "ff"])
    if style == "rand":
        b = bytes(rng.randrange(256) for _ in range(n))
    elif style == "ascii":
        b = _ascii(rng, n).encode()
    elif style == "zeros":
        b = bytes(n - 1) + b"\x01"
    else:
        b = b"\xff" * n
    return b.hex()


def _json_value(rng, depth=0):
    t = rng.choice(["int", "str", "list", "dict", "bool", "null", "float"] if depth < 2 else ["int", "str", "bool"])
    if t == "int":
        return rng.randint(-5, 1 << 33)
    if t == "float":
        return rng.choice([0.5, 1.25, -3.75, 1e3, 1e3, float("inf"), float("-inf")])
    if t == "str" and rng.random() < 0.25:
        # valid non-ASCII text and (legal JSON) escaped lone surrogates
        return rng.choice(["caf\u00e9", "\u65e5\u672c\u8a9e", "\u00b5s \u00b1 1", "x\ud83dy", "\U0001f600 ok", "\u2028"])
    if t == "str":
        return _ascii(rng, rng.randint(0, 12), alphabet=_PRINTABLE + " {}[],\\/")   # no '":' sequences: prettyPrint (C06, not claimed) rewrites them
    if t == "bool":
        return rng.choice([True, False])
    if t == "null":
        return None
    if t == "list":
        return [_json_value(rng, depth + 1) for _ in range(rng.randint(0, 3))]
    return {("k%d_" % i) + _ascii(rng, 3): _json_value(rng, depth + 1) for i in range(rng.randint(0, 3))}


def gen_builtin_json(rng):
    top = rng.choice(["dict", "dict", "dict", "list", "str", "int", "falsy"])
    if top == "falsy":
        v = rng.choice([0, 0.0, False, "", [], None, {}])
    elif top == "dict":
        v = {("K%d " % i) + _ascii(rng, 4): _json_value(rng, 1) for i in range(rng.randint(1, 4))}
        if rng.random() < 0.06:
            # a member that happens to be named like one of the section's own header fields: the stored JSON value
            # must still appear as it is
            v[rng.choice(["Section Version", "Sub-section type", "Created by"])] = rng.choice([7, "bmc-app", [1, 2]])
    elif top == "list":
        v = [_json_value(rng, 1) for _ in range(rng.randint(0, 4))]
    elif top == "str":
        v = _ascii(rng, rng.randint(1, 10))
    else:
        v = rng.randint(0, 999999)
    # ensure_ascii=False puts real UTF-8 into the payload; lone surrogates can only be written escaped
    text = json.dumps(v, indent=rng.choice([None, 2]))
    if rng.random() < 0.5:
        try:
            t2 = json.dumps(v, indent=rng.choice([None, 2]), ensure_ascii=False)
            t2.encode("utf-8")
            text = t2
        except UnicodeEncodeError:
            pass
    if "Infinity" in text:
        # the legal spelling of an out-of-range number (reads as inf, is written back as Infinity)
        import re
        t3 = re.sub(r'(?<![\w"])(-?)Infinity(?![\w"])', r"\g<1>1e999", text)
        if json.loads(t3) == v:
            text = t3
    raw = text.encode("utf-8") + b"\x00" * rng.choice([0, 0, 1, 3])
    return raw.hex(), v


def gen_builtin_text(rng):
    lines = []
    for _ in range(rng.randint(1, 5)):
        n = rng.randint(1, 30)
        # first and last char printable non-space so .strip() is neutral
        s = [rng.choice(_PRINTABLE)]
        for _ in range(n - 2):
            s.append(rng.choice(_PRINTABLE + "  \t\x01\x7f\x1b\u00e9\u65e5\r\x0b\x0c\x1c\x1e\u0085\u2028"))
        s.append(rng.choice(_PRINTABLE))
        lines.append("".join(s))
    raw = "\n".join(lines).encode("utf-8") + b"\x00" * rng.choice([0, 1, 2])
    expect = ["".join(ch if " " <= ch <= "~" else "." for ch in ln) for ln in lines]
    return raw.hex(), expect


def gen_ud(rng, creator, targets=None):
    """targets: optional list of (creator, comp) tuples that should be hit
    with high probability (plugin-served components)."""
    kind = rng.choice(["ud", "ud", "ed"])
    sec = {"kind": kind, "id": "UD" if kind == "ud" else "ED",
           "ver": rng.choice([1, 1, 2, 2, 3, 0, 0x7F, 0xFF]), "subtype": rng.choice([1, 2, 3, 4, 0x48, 0x49, 0x54, 0xAA])}
    sec_creator = creator
    if kind == "ed":
        sec_creator = rng.choice(KNOWN_CREATORS + "ZQobm")
    if targets and rng.random() < 0.7:
        tc, comp = rng.choice(targets)
        if kind == "ed":
            sec_creator = tc
        elif tc != creator:
            # UD sections inherit the PEL creator; use ED to reach tc
            sec["kind"], sec["id"] = "ed", "ED"
            kind = "ed"
            sec_creator = tc
        sec["comp"] = comp
    else:
        sec["comp"] = rng.choice([0x2000, 0x2000, 0x1000, 0xE500, 0x2C00, 0x0100, 0xABCD, 0x0A0B, 0x8001, 0x41E9, 0x4142])
    if kind == "ed":
        sec["creator"] = sec_creator
    sec["payload"] = gen_payload(rng)
    if sec_creator == "O" and sec["comp"] == 0x2000:
        fmt = rng.choice(["json", "json", "text", "text", "cbor", "custom", "other", "badjson"])
        if fmt == "badjson":
            # sub-type says JSON, the text is not (cut off / not JSON at all); valid UTF-8, no NUL / blank padding
            sec["subtype"] = 1
            sec["payload"] = rng.choice([b'{"k": "v", "list": [1, 2', b'{"a": 1} trailing', b"not json at all", b'{"unterminated": "str'])\
                .hex()
            sec["badjson"] = True
        elif fmt == "json":
            sec["subtype"] = 1
            sec["payload"], sec["expect_json"] = gen_builtin_json(rng)
        elif fmt == "text":
            sec["subtype"] = 3
            sec["payload"], sec["expect_text"] = gen_builtin_text(rng)
        elif fmt == "cbor":
            sec["subtype"] = 2
        elif fmt == "custom":
            sec["subtype"] = 4
        else:
            sec["subtype"] = rng.choice([0, 5, 0x48, 0xFF])
    return sec


def gen_eh(rng):
    n = rng.choice([0, 0, 8, 20, 41])
    return {"kind": "eh", "id": "EH", "ver": 1, "subtype": 0, "comp": rng.choice([0x2000, 0x1000]),
            "mt": _ascii(rng, 8), "sn": _ascii(rng, rng.randint(1, 12), 12),
            "fw": _ascii(rng, rng.randint(1, 16), 16), "subfw": _ascii(rng, rng.randint(1, 16), 16),
            "reftime": _bcd_time(rng), "symptom": _ascii(rng, n)}


def gen_mt(rng):
    return {"kind": "mt", "id": "MT", "ver": 1, "subtype": 0, "comp": rng.choice([0x2000, 0x1000]),
            "mt": _ascii(rng, rng.randint(1, 8), 8), "sn": _ascii(rng, rng.randint(1, 12), 12)}


def gen_lp(rng):
    n = rng.choice([0, 0, 1, 2, 3])
    return {"kind": "lp", "id": "LP", "ver": 1, "subtype": 0, "comp": rng.choice([0x2000, 0x4C50]),
            "part": rng.randrange(1 << 16), "logid": rng.randrange(1 << 32),
            "name": _ascii(rng, rng.choice([0, 4, 8, 11])),
            "targets": [rng.randrange(1 << 16) for _ in range(n)]}


def gen_raw(rng, sid=None):
    sid = sid or rng.choice(HEXDUMP_ONLY_IDS + UNKNOWN_IDS)
    return {"kind": "raw", "id": sid, "ver": rng.randrange(256), "subtype": rng.randrange(256),
            "comp": rng.randrange(1 << 16), "payload": gen_payload(rng)}


def gen_id(rng, magnitude=None):
    m = magnitude or rng.choice(["typical", "typical", "typical", "small", "mid", "max"])
    if m == "small":
        return rng.randrange(0, 0x10)
    if m == "mid":
        return rng.randrange(0x10, 0x10000000)
    if m == "max":
        return rng.choice([0xFFFFFFFF, 0x90000000 | rng.randrange(1 << 16)])
    return 0x50000000 | rng.randrange(1 << 20)


def gen_pel(rng, *, eid=None, plid=None, bmc_id=None, creator=None, want_class=None,
            refcode_pool=None, ud_targets=None, max_sections=8, with_src=None,
            id_magnitude=None, src_callouts=None):
    creator = creator or rng.choice(["O", "O", "O", "B", "H", "M", "T", "P", "S", "K", "L", "C", "O", "B", "H", "X", "7", "z", "o", "b"])
    sev, action = gen_class(rng, want_class)
    eid = gen_id(rng, id_magnitude) if eid is None else eid
    def stamp():
        c = rng.random()
        if c < 0.04:
            return "00000000000000" + rng.choice(["00", "57"])      # unset clock
        if c < 0.06:
            return rng.choice(["ffffffffffffffff", "20aa13459961007f"])  # not BCD at all
        return _bcd_time(rng)
    r = {"creator": creator, "comp": rng.choice([0x2000, 0x1000, 0xE500, 0x2C00, 0x3100, 0x4242, 0x5052, 0x41E9]),
         "create": stamp(), "commit": stamp(),
         "bmc_id": (rng.randrange(1, 100000) if rng.random() < 0.95 else rng.choice([0, 0xFFFFFFFF])) if bmc_id is None else bmc_id,
         "cssver": rng.choice([0, 1, 0x0102030405060708, rng.randrange(1 << 64)]),
         "plid": (eid if rng.random() < 0.6 else gen_id(rng, id_magnitude)) if plid is None else plid,
         "eid": eid,
         "uh": {"comp": rng.choice([0x2000, 0x1000, 0x8D00, 0x4242]), "subsystem": rng.choice(SUBSYSTEMS),
                "scope": rng.choice([1, 2, 3, 4, 9]), "severity": sev,
                "type": rng.choice([0, 1, 2, 4, 8, 0x10, 7]), "domain": rng.randrange(256),
                "vector": rng.randrange(256), "action": action,
                "states": rng.choice([0, 1, 2, 3, 0x0302, 0x0201, 0x09])},
         "sections": []}
    secs = r["sections"]
    if with_src is None:
        with_src = rng.random() < 0.85
    if with_src:
        secs.append(gen_src(rng, "PS", creator, refcode_pool, callouts=src_callouts))
    n_opt = rng.randint(0, max(0, max_sections - len(secs)))
    for _ in range(n_opt):
        k = rng.choice(["eh", "mt", "ud", "ud", "ud", "ud", "lp", "raw", "raw", "ss"])
        if k == "eh":
            secs.append(gen_eh(rng))
        elif k == "mt":
            secs.append(gen_mt(rng))
        elif k == "ud":
            secs.append(gen_ud(rng, creator, ud_targets))
        elif k == "lp":
            secs.append(gen_lp(rng))
        elif k == "raw":
            secs.append(gen_raw(rng))
        elif k == "ss" and with_src:
            secs.append(gen_src(rng, "SS", creator, refcode_pool))
    _steer(rng, r)
    return r


def _steer(rng, r):
    """Avoid the out-of-scope callout look-ahead quirk (DESIGN §10): after an
    SRC that has callouts, the following section id must not be ID/PE/MR.
    (The generator never emits those ids, and callout (size, flags) pairs
    never spell them; asserted in build().)"""
    return r


# --------------------------------------------------------------------------
# recipe -> bytes
# --------------------------------------------------------------------------
def _hdr(sid, length, ver, subtype, comp):
    return sid.encode("latin-1") + struct.pack(">HBBH", length, ver & 0xFF, subtype & 0xFF, comp & 0xFFFF)


def _callout_bytes(c):
    loc = c["loc"].encode() + b"\x00" * c.get("loc_pad", 0)
    body = b""
    if "fru" in c:
        f = c["fru"]
        fl = f["hi"] & 0xF0
        fb = b""
        if "pn" in f or "proc" in f:
            fl |= 0x08 if "pn" in f else 0x02
            fb += (f.get("pn") or f.get("proc")).encode().ljust(8, b"\x00")
        if "ccin" in f:
            fl |= 0x04
            fb += f["ccin"].encode().ljust(4, b"\x00")
        if "sn" in f:
            fl |= 0x01
            fb += f["sn"].encode().ljust(12, b"\x00")
        body += b"ID" + bytes([4 + len(fb), fl]) + fb
    if "pce" in c:
        p = c["pce"]
        name = p["name"].encode()
        body += b"PE" + bytes([24 + len(name), p["flags"]]) + p["mt"].encode().ljust(8, b"\x00") \
            + p["sn"].encode().ljust(12, b"\x00") + name
    if "mru" in c:
        m = c["mru"]
        items = b"".join(struct.pack(">II", a, b) for a, b in m["items"])
        body += b"MR" + bytes([8 + len(items), (m["hi"] & 0xF0) | len(m["items"])]) \
            + struct.pack(">I", m["reserved"]) + items
    size = 4 + len(loc) + len(body)
    assert size < 256
    head = bytes([size, c["flags"], c["priority"], len(loc)])
    assert head[:2] not in (b"ID", b"PE", b"MR")
    return head + loc + body


def section_bytes(s):
    k = s["kind"]
    if k == "src":
        flags = s["flags"] & 0xFE
        co = b""
        if s.get("callouts"):
            flags |= 0x01
            cb = b"".join(_callout_bytes(c) for c in s["callouts"])
            pad = (-len(cb)) % 4
            # the decoder counts flattened sizes; keep word length exact by
            # padding inside the last callout's location code instead of after
            assert pad == 0 or True
            total = 4 + len(cb)
            if total % 4:
                # make the subsection a whole number of words by growing the
                # last callout's trailing structure: simplest is to reject
                raise ValueError("callout subsection not word aligned: %d" % total)
            co = bytes([0xC0, 0x00]) + struct.pack(">H", total // 4) + cb
        srcsize = 72 + len(co)
        body = bytes([s["srcver"], flags, s.get("res1", 0), s["wordcount"]]) \
            + struct.pack(">HH", s.get("res2", 0), srcsize) \
            + b"".join(struct.pack(">I", w) for w in s["words"]) + s["ascii"].encode("ascii")
        assert len(s["ascii"]) == 32
        body += co
    elif k == "eh":
        sym = s["symptom"].encode()
        body = s["mt"].encode().ljust(8, b"\x00")[:8] + s["sn"].encode().ljust(12, b"\x00")[:12] \
            + s["fw"].encode().ljust(16, b"\x00")[:16] + s["subfw"].encode().ljust(16, b"\x00")[:16] \
            + bytes(4) + bytes.fromhex(s["reftime"]) + bytes(3) + bytes([len(sym)]) + sym
    elif k == "mt":
        body = s["mt"].encode().ljust(8, b"\x00")[:8] + s["sn"].encode().ljust(12, b"\x00")[:12]
    elif k == "lp":
        name = s["name"].encode()
        body = struct.pack(">HBBI", s["part"], len(name), len(s["targets"]), s["logid"]) + name \
            + b"".join(struct.pack(">H", t) for t in s["targets"])
        if len(s["targets"]) % 2:
            body += b"\x00\x00"
    elif k == "ud" or k == "raw":
        body = bytes.fromhex(s["payload"])
        assert len(body) >= 1
    elif k == "ed":
        body = s["creator"].encode("ascii") + bytes(3) + bytes.fromhex(s["payload"])
    else:
        raise ValueError(k)
    return _hdr(s["id"], 8 + len(body), s["ver"], s["subtype"], s["comp"]) + body


def _fix_callout_alignment(s):
    """make the callout subsection word aligned by padding location codes"""
    if s["kind"] != "src" or not s.get("callouts"):
        return
    for c in s["callouts"]:
        n = len(_callout_bytes(c))
        if n % 4:
            need = 4 - n % 4
            if not c["loc"]:
                c["loc"] = "U78"
                n = len(_callout_bytes(dict(c, loc_pad=0)))
                need = (-n) % 4
                c["loc_pad"] = need
            else:
                c["loc_pad"] = c.get("loc_pad", 0) + need
        assert len(_callout_bytes(c)) % 4 == 0


def build(recipe):
    r = recipe
    secs = r["sections"]
    for s in secs:
        _fix_callout_alignment(s)
    ph = bytes.fromhex(r["create"]) + bytes.fromhex(r["commit"]) + r["creator"].encode("ascii") \
        + bytes(2) + bytes([2 + len(secs)]) + struct.pack(">IQII", r["bmc_id"], r["cssver"], r["plid"], r["eid"])
    assert len(ph) == 40
    u = r["uh"]
    uh = bytes([u["subsystem"], u["scope"], u["severity"], u["type"]]) + bytes(4) \
        + bytes([u["domain"], u["vector"]]) + struct.pack(">HI", u["action"], u["states"])
    out = _hdr("PH", 48, 1, 0, r["comp"]) + ph + _hdr("UH", 24, 1, 0, u["comp"]) + uh
    prev_src_callouts = False
    for s in secs:
        assert not (prev_src_callouts and s["id"] in ("ID", "PE", "MR"))
        out += section_bytes(s)
        prev_src_callouts = s["kind"] == "src" and bool(s.get("callouts"))
    return out


def section_offsets(recipe):
    """[(id, start, end)] including PH and UH"""
    res = [("PH", 0, 48), ("UH", 48, 72)]
    off = 72
    for s in recipe["sections"]:
        _fix_callout_alignment(s)
        n = len(section_bytes(s))
        res.append((s["id"], off, off + n))
        off += n
    return res


def eid_str(v):
    return "%08X" % v


def facts(recipe):
    r = recipe
    cls = class_of(r["uh"]["severity"], r["uh"]["action"])
    ps = [s for s in r["sections"] if s["kind"] == "src" and s["id"] == "PS"]
    return {"eid": r["eid"], "plid": r["plid"], "bmc_id": r["bmc_id"], "creator": r["creator"],
            "severity": r["uh"]["severity"], "action": r["uh"]["action"],
            "hidden": cls["hidden"], "serviceable": cls["serviceable"],
            "refcode": ps[0]["ascii"].strip() if ps else None,
            "commit": r["commit"], "nsections": 2 + len(r["sections"])}


def section_creator(recipe, s):
    return s["creator"] if s["kind"] == "ed" else recipe["creator"]


def default_visible(f):
    """Is the PEL shown with no selection option (peltool default)?"""
    return f["serviceable"] and not f["hidden"]


def field_offsets(recipe):
    """[(absolute offset, width, name)] of every length / count / flag / id
    field – the places where a corrupted byte changes how the rest is read."""
    out = [(0, 2, "PH.id"), (2, 2, "PH.len"), (27, 1, "PH.sectionCount"), (24, 1, "PH.creator"),
           (48, 2, "UH.id"), (50, 2, "UH.len"), (50 + 8, 1, "UH.severity"), (48 + 8 + 10, 2, "UH.action")]
    for (sid, start, end), s in zip(section_offsets(recipe)[2:], recipe["sections"]):
        out += [(start, 2, sid + ".id"), (start + 2, 2, sid + ".len"), (start + 4, 1, sid + ".ver"),
                (start + 5, 1, sid + ".subtype"), (start + 6, 2, sid + ".comp")]
        b = start + 8
        k = s["kind"]
        if k == "src":
            out += [(b + 1, 1, "src.flags"), (b + 3, 1, "src.wordcount"), (b + 6, 2, "src.size"), (b + 40, 2, "src.asciitype")]
            if s.get("callouts"):
                c0 = b + 72
                out += [(c0, 1, "co.id"), (c0 + 2, 2, "co.wordlen")]
                p = c0 + 4
                for c in s["callouts"]:
                    cb = _callout_bytes(c)
                    out += [(p, 1, "callout.size"), (p + 1, 1, "callout.flags"), (p + 3, 1, "callout.loclen")]
                    q = p + 4 + cb[3]
                    if "fru" in c:
                        out += [(q, 2, "fru.type"), (q + 2, 1, "fru.size"), (q + 3, 1, "fru.flags")]
                        q += cb[q - p + 2]
                    if "pce" in c:
                        out += [(q, 2, "pce.type"), (q + 2, 1, "pce.size"), (q + 3, 1, "pce.flags")]
                        q += cb[q - p + 2]
                    if "mru" in c:
                        out += [(q, 2, "mru.type"), (q + 2, 1, "mru.size"), (q + 3, 1, "mru.flags")]
                    p += len(cb)
        elif k == "eh":
            out += [(b + 67, 1, "eh.symlen")]
        elif k == "lp":
            out += [(b + 2, 1, "lp.namelen"), (b + 3, 1, "lp.count")]
        elif k == "ed":
            out += [(b, 1, "ed.creator"), (b + 4, min(4, end - (b + 4)), "ed.payload_head")]
        elif k == "ud":
            # the first bytes of a payload are where parser plugins keep their own counts / lengths
            out += [(b, min(4, end - b), "ud.payload_head")]
    return out
