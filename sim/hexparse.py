"""independent reader of the default hex-dump layout
AAAAAAAA     DDDDDDDD  DDDDDDDD  DDDDDDDD  DDDDDDDD     CCCCCCCCCCCCCCCC"""
import re

_LINE = re.compile(r"^([0-9A-Fa-f]{8}) {5}(.{38}) {5}(.{0,16})$")


def parse_dump_lines(lines):
    """returns bytes, or None when a line does not have the layout"""
    out = bytearray()
    for ln in lines:
        m = _LINE.match(ln)
        if not m:
            return None
        if int(m.group(1), 16) != len(out):
            return None
        field = m.group(2).replace(" ", "")
        if len(field) % 2 or not re.fullmatch(r"[0-9A-Fa-f]*", field):
            return None
        out += bytes.fromhex(field)
    return bytes(out)


def recover(lines, repo_parse=None):
    """all byte strings a reader could recover from the dump: by fixed columns
    and (when given) by the repository's own pel.hexdump.parse"""
    res = []
    if not isinstance(lines, list) or not all(isinstance(x, str) for x in lines):
        return res
    a = parse_dump_lines(lines)
    if a is not None:
        res.append(a)
    if repo_parse is not None:
        try:
            res.append(bytes(repo_parse(lines)))
        except Exception:
            pass
    return res
