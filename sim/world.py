"""
The simulated world one peltool process lives in.

* SimFS     – interposition on builtins.open / io.open and the mutating /
              enumerating functions of the real `os` module, active only for
              paths below the run's scratch root.  It owns directory listing
              order, output buffering, fault injection, crash points and the
              event log.  The real backing tree (in /dev/shm) is what
              snapshots hash, so code that bypasses a seam is still seen.
* SimStream – stdout / stderr with a python-level buffer and fault sites.
* Plugins   – a sys.meta_path finder that serves in-memory parser modules.
* World     – fresh module set per run, in-process `main()` execution.

Executing draws no random numbers and reads no clock: every choice is in the
plan handed to World / run_op.
"""
import builtins
import errno as _errno
import hashlib
import importlib
import importlib.abc
import importlib.machinery
import io
import json
import os
import random
import shutil
import sys
import types

REPO = os.environ.get("VERIF_REPO", "/repo")
MODULES = os.path.join(REPO, "modules")
SCRATCH_BASE = os.environ.get("VERIF_SCRATCH", "/dev/shm")

# originals, captured before anything is patched --------------------------------
_o = types.SimpleNamespace(
    open=builtins.open, io_open=io.open, walk=os.walk, listdir=os.listdir, scandir=os.scandir,
    remove=os.remove, unlink=os.unlink, rename=os.rename, replace=os.replace, rmdir=os.rmdir,
    mkdir=os.mkdir, makedirs=os.makedirs, truncate=os.truncate, os_open=os.open, link=os.link,
    symlink=os.symlink, removedirs=os.removedirs, renames=os.renames, chmod=os.chmod, utime=os.utime,
    os_write=os.write, os_close=os.close, lstat=os.lstat, stat=os.stat,
)

import signal as _signal
_o_alarm, _o_setitimer = _signal.alarm, _signal.setitimer

PURGE_PREFIXES = ("pel", "io_drawer", "udparsers", "srcparsers", "calloutparsers", "pel_registry")


class SimCrash(BaseException):
    """process death at an I/O event; passes `except Exception` barriers"""


class HarnessError(Exception):
    pass


ERRNOS = {"ENOSPC": _errno.ENOSPC, "EIO": _errno.EIO, "EACCES": _errno.EACCES, "EPIPE": _errno.EPIPE,
          "EDQUOT": _errno.EDQUOT, "EROFS": _errno.EROFS}


def _oserror(name, path=None):
    code = ERRNOS[name]
    if name == "EPIPE":
        return BrokenPipeError(code, os.strerror(code))
    if name == "EACCES":
        return PermissionError(code, os.strerror(code), path)
    return OSError(code, os.strerror(code), path)


# =============================================================================
# event log + fault schedule
# =============================================================================
class Events:
    """Per-op I/O event log.  Each *fault-eligible* event gets the next index;
    `faults` maps index -> fault dict {kind: error|crash_before|crash_after|
    short, errno: NAME, keep: int}."""

    def __init__(self, faults=None):
        self.log = []            # list of [idx, kind, relpath, info, count]
        self.faults = {int(f["at"]): f for f in (faults or []) if "at" in f}
        # alternative addressing: {"on": <event kind>, "nth": n} = n-th event of that kind in this op
        self.kfaults = {(f["on"], int(f.get("nth", 0))): f for f in (faults or []) if "at" not in f}
        self.kcount = {}
        self.fired = []          # faults that actually fired
        self.crashed = False
        self.n = 0
        self.on_event = None     # virtual clock hook: called before every event (timers may fire there)

    def point(self, kind, rel, info=None):
        """Register an event about to happen.  Returns the fault to apply by
        the caller (error/short) or None.  Raises SimCrash for crash_before.
        The caller calls `.after(idx)` once the event has been performed."""
        if self.crashed:
            raise SimCrash("dead")
        if self.on_event is not None:
            self.on_event()
        idx = self.n
        self.n += 1
        last = self.log[-1] if self.log else None
        if (kind in ("write", "stdout_write") and last is not None and last[1] == kind and last[2] == rel
                and not info[1] and not last[3][1] and last[0] + last[4] == idx
                and idx not in self.faults and (idx - 1) not in self.faults and not self.kfaults):
            # run of buffered writes that cause no drain: one log entry, counted
            last[3][0] += info[0]
            last[4] += 1
        else:
            self.log.append([idx, kind, rel, info, 1])
        f = self.faults.get(idx)
        if self.kfaults:
            k = self.kcount.get(kind, 0)
            self.kcount[kind] = k + 1
            if f is None and (kind, k) in self.kfaults:
                f = dict(self.kfaults[(kind, k)], at=idx)
                self.faults[idx] = f
        if f is not None:
            applicable = f["kind"].startswith("crash") or kind in FAULTABLE
            if applicable:
                self.fired.append(dict(f, event=kind, path=rel))
                if f["kind"] == "crash_before":
                    self.crashed = True
                    self.log.append([idx, "CRASH_BEFORE", rel, None, 0])
                    raise SimCrash("before %s %s" % (kind, rel))
                return idx, f
        return idx, None

    def after(self, idx):
        f = self.faults.get(idx)
        if f is not None and f["kind"] == "crash_after" and not self.crashed:
            self.crashed = True
            self.log.append([idx, "CRASH_AFTER", None, None, 0])
            raise SimCrash("after event %d" % idx)

    def digest(self):
        return hashlib.sha256(json.dumps(self.log, sort_keys=True, default=str).encode()).hexdigest()


FAULTABLE = {"walk", "open_data", "open_out", "write", "flush", "close", "stdout_write", "stdout_flush", "remove", "rename", "replace"}


# =============================================================================
# simulated output file / stream
# =============================================================================
class SimFile:
    """Write-mode file object with a python-level buffer of `bufsize` bytes.
    Bytes become durable (reach the backing file) only on buffer overflow,
    flush() or close()."""

    def __init__(self, fs, path, rel, mode, bufsize, encoding="utf-8", newline=None):
        self._fs, self._ev = fs, fs.ev
        self.name, self._rel, self.mode = path, rel, mode
        self._text = "b" not in mode
        self.encoding = encoding if self._text else None
        self._bufsize = bufsize
        self._buf = bytearray()
        self.closed = False
        self.durable = 0
        self.close_ok = False
        flags = os.O_WRONLY | os.O_CREAT
        if "a" in mode:
            flags |= os.O_APPEND
        elif "x" in mode:
            flags |= os.O_EXCL
        elif "w" in mode:
            flags |= os.O_TRUNC
        self._fd = _o.os_open(path, flags, 0o644)

    # -- helpers
    def _drain(self, upto=None):
        data = bytes(self._buf if upto is None else self._buf[:upto])
        if data and self._fd is not None:
            _o.os_write(self._fd, data)
            self.durable += len(data)
        del self._buf[:len(data)]

    def _dead(self):
        if self._ev.crashed:
            raise SimCrash("dead")

    # -- file API
    def writable(self):
        return True

    def readable(self):
        return False

    def seekable(self):
        return False

    def isatty(self):
        return False

    def fileno(self):
        raise io.UnsupportedOperation("fileno")

    def write(self, s):
        self._dead()
        if self.closed:
            raise ValueError("I/O operation on closed file.")
        if self._text:
            if not isinstance(s, str):
                raise TypeError("write() argument must be str, not %s" % type(s).__name__)
            b = s.encode(self.encoding)
        else:
            b = bytes(s)
        will_drain = self._bufsize is not None and len(self._buf) + len(b) > self._bufsize
        idx, f = self._ev.point("write", self._rel, [len(b), int(will_drain)])
        if f is not None and f["kind"] in ("error", "short"):
            if f["kind"] == "short" and will_drain:
                self._buf += b
                self._drain(min(int(f.get("keep", 0)), len(self._buf)))
            raise _oserror(f.get("errno", "ENOSPC"), self.name)
        self._buf += b
        if will_drain:
            self._drain()
        self._ev.after(idx)
        return len(s)

    def writelines(self, lines):
        for line in lines:
            self.write(line)

    def flush(self):
        self._dead()
        if self.closed:
            raise ValueError("I/O operation on closed file.")
        idx, f = self._ev.point("flush", self._rel, [len(self._buf)])
        if f is not None and f["kind"] in ("error", "short"):
            if f["kind"] == "short":
                self._drain(min(int(f.get("keep", 0)), len(self._buf)))
            raise _oserror(f.get("errno", "ENOSPC"), self.name)
        self._drain()
        self._ev.after(idx)

    def close(self):
        if self.closed:
            return
        if self._ev.crashed:
            # process is dead: nothing more becomes durable
            self._abandon()
            raise SimCrash("dead")
        try:
            idx, f = self._ev.point("close", self._rel, [len(self._buf)])
        except SimCrash:
            self._abandon()
            raise
        if f is not None and f["kind"] in ("error", "short"):
            if f["kind"] == "short":
                self._drain(min(int(f.get("keep", 0)), len(self._buf)))
            self._abandon()
            raise _oserror(f.get("errno", "ENOSPC"), self.name)
        self._drain()
        self.close_ok = True
        self._abandon()
        try:
            self._ev.after(idx)
        except SimCrash:
            raise

    def _abandon(self):
        self.closed = True
        self._buf = bytearray()
        if self._fd is not None:
            try:
                _o.os_close(self._fd)
            finally:
                self._fd = None

    def __enter__(self):
        return self

    def __exit__(self, *a):
        self.close()
        return False

    def __del__(self):
        # a leaked file object: CPython would flush it at GC time; the
        # simulator makes that explicit through World.gc_files()
        pass


class SimStream:
    """stdout: text stream with buffer + fault sites.  `delivered` is what
    reached the sink (terminal / pipe / file)."""

    def __init__(self, ev, bufsize, kind="stdout", encoding="utf-8"):
        self._ev, self._bufsize, self._kind = ev, bufsize, kind
        self._buf = []
        self._buflen = 0
        self.delivered = []
        self.encoding = encoding or "utf-8"
        self.errors = "strict"
        self.closed = False
        self.broken = False

    def writable(self):
        return True

    def isatty(self):
        return False

    def fileno(self):
        raise io.UnsupportedOperation("fileno")

    def _drain(self, keep=None):
        data = "".join(self._buf)
        if keep is not None:
            data, rest = data[:keep], data[keep:]
        else:
            rest = ""
        if data:
            self.delivered.append(data)
        self._buf = [rest] if rest else []
        self._buflen = len(rest)

    def write(self, s):
        if self._ev.crashed:
            raise SimCrash("dead")
        if not isinstance(s, str):
            raise TypeError("write() argument must be str, not %s" % type(s).__name__)
        s.encode(self.encoding, self.errors)      # a real text stream raises UnicodeEncodeError here
        will_drain = self._bufsize is not None and self._buflen + len(s) > self._bufsize
        idx, f = self._ev.point(self._kind + "_write", None, [len(s), int(will_drain)])
        if f is not None and f["kind"] in ("error", "short"):
            if f["kind"] == "short" and will_drain:
                self._buf.append(s)
                self._buflen += len(s)
                self._drain(min(int(f.get("keep", 0)), self._buflen))
            self.broken = True
            raise _oserror(f.get("errno", "EPIPE"))
        self._buf.append(s)
        self._buflen += len(s)
        if will_drain:
            self._drain()
        self._ev.after(idx)
        return len(s)

    def flush(self):
        if self._ev.crashed:
            raise SimCrash("dead")
        idx, f = self._ev.point(self._kind + "_flush", None, [self._buflen])
        if f is not None and f["kind"] in ("error", "short"):
            if f["kind"] == "short":
                self._drain(min(int(f.get("keep", 0)), self._buflen))
            self.broken = True
            raise _oserror(f.get("errno", "EPIPE"))
        self._drain()
        self._ev.after(idx)

    def value(self):
        """everything written (buffered or delivered) – for fault-free use"""
        return "".join(self.delivered) + "".join(self._buf)

    def delivered_value(self):
        return "".join(self.delivered)


class PlainCapture(io.StringIO):
    """stderr capture: no faults, not an event source"""


# =============================================================================
# SimFS
# =============================================================================
class SimFS:
    def __init__(self, root):
        self.root = os.path.realpath(root)
        self.prefix = self.root + os.sep
        self.alt_prefixes = []
        self.ev = Events()
        self.order = {"policy": "asc", "key": 0}
        self.file_bufsize = None
        self.open_files = []
        self.fds = {}            # fd -> rel for descriptors opened for writing below the root
        self._rd_cache = {}
        self.mutations = []      # (kind, rel) of every mutating call seen by the seams
        self.listings = []       # (rel, tuple(names)) served
        self.installed = False
        self.mounts = []         # [(absolute path as the tool sees it, real path below the scratch root)]
        self.share = None        # (absolute path as the tool sees it, real path outside the root)
        self.active = False      # seams only interpose while an op is running
        self.vclock = 0.0        # virtual seconds
        self.tick = 0.0          # virtual seconds that pass per I/O event ("slow storage")
        self.alarm_due = None    # deadline of the armed interval timer, if any
        self.timer_stats = {}

    # ---- path classification
    def outside(self, p):
        """translation for the one mounted location that lives outside the simulated root (registry directory)"""
        if self.share and self.active and isinstance(p, str) and (p == self.share[0] or p.startswith(self.share[0] + "/")):
            return self.share[1] + p[len(self.share[0]):]
        return p

    def rel(self, p):
        if not self.active:
            return None
        try:
            if isinstance(p, int):
                return None
            p = os.fspath(p)
            if isinstance(p, bytes):
                p = os.fsdecode(p)
            if not os.path.isabs(p):
                p = os.path.join(os.getcwd(), p)
            lex = os.path.normpath(p)
        except TypeError:
            return None
        mounted = False
        for src, dst in self.mounts:
            # fixed absolute locations of a BMC (default PEL directory, registry directory) served from the scratch tree
            if lex == src or lex.startswith(src + os.sep):
                p = dst + lex[len(src):]
                mounted = True
                break
        if not mounted:
            if not (p.startswith(self.prefix) or p == self.root):
                return None
            # what the operating system would do: resolve the directory part physically ("<link>/.." is the parent of the
            # link's TARGET, not of the link), keep the last component as it is (it may itself be a link that is removed)
            q = p.rstrip(os.sep) or os.sep
            head, tail = os.path.split(q)
            if tail in ("..", ".", ""):
                p = self._realdir(q)
            else:
                p = os.path.join(self._realdir(head), tail)
        if p == self.root:
            return "."
        if p.startswith(self.prefix):
            return p[len(self.prefix):]
        return None

    def _realdir(self, d):
        r = self._rd_cache.get(d)
        if r is None:
            r = os.path.realpath(d)
            self._rd_cache[d] = r
        return r

    def real(self, rel):
        return self.root if rel == "." else os.path.join(self.root, rel)

    # ---- ordering
    def arrange(self, rel, names):
        names = sorted(names)
        pol = self.order.get("policy", "asc")
        if pol == "asc":
            pass
        elif pol == "desc":
            names.reverse()
        elif pol == "json_first":
            names = [n for n in names if n.endswith(".json")] + [n for n in names if not n.endswith(".json")]
        elif pol == "json_last":
            names = [n for n in names if not n.endswith(".json")] + [n for n in names if n.endswith(".json")]
        elif pol == "perm":
            random.Random("%s:%s" % (self.order.get("key", 0), rel)).shuffle(names)
        else:
            raise HarnessError("unknown order policy %r" % pol)
        self.listings.append((rel, tuple(names)))
        return names

    # ---- seams
    def s_open(self, file, mode="r", buffering=-1, encoding=None, errors=None, newline=None,
               closefd=True, opener=None):
        rel = self.rel(file)
        if rel is None:
            file = self.outside(file)
            if self.active and self.ev.kfaults and isinstance(file, str) and file.startswith(MODULES) and not file.endswith(".py"):
                # a data file shipped with the repository (PTE tables, trace string files, registry ...)
                idx, f = self.ev.point("open_data", os.path.basename(file), None)
                if f is not None and f["kind"] in ("error", "short"):
                    raise _oserror(f.get("errno", "EIO"), file)
            return _o.open(file, mode, buffering, encoding, errors, newline, closefd, opener)
        path = os.path.join(self.root, rel)
        if any(c in mode for c in "wax+"):
            idx, f = self.ev.point("open_out", rel, [mode])
            if f is not None and f["kind"] in ("error", "short"):
                raise _oserror(f.get("errno", "ENOSPC"), path)
            self.mutations.append(("open_out", rel))
            sf = SimFile(self, path, rel, mode, self.file_bufsize, encoding or "utf-8")
            self.open_files.append(sf)
            self.ev.after(idx)
            return sf
        idx, _ = self.ev.point("open_in", rel, None)
        fobj = _o.open(path, mode, buffering, encoding, errors, newline, closefd, opener)
        self.ev.after(idx)
        return fobj

    def _scan(self, top):
        with _o.scandir(top) as it:
            entries = list(it)
        return entries

    def s_walk(self, top, topdown=True, onerror=None, followlinks=False):
        rel = self.rel(top)
        if rel is None:
            yield from _o.walk(top, topdown, onerror, followlinks)
            return
        top = os.fspath(top)
        idx, flt = self.ev.point("walk", rel, None)
        try:
            if flt is not None and flt["kind"] in ("error", "short"):
                raise _oserror(flt.get("errno", "EACCES"), top)
            entries = self._scan(self.real(rel))
        except OSError as e:
            if onerror is not None:
                onerror(e)
            return
        kinds = {e.name: e.is_dir() for e in entries}
        names = self.arrange(rel, list(kinds))
        dirs = [n for n in names if kinds[n]]
        files = [n for n in names if not kinds[n]]
        self.ev.after(idx)
        if topdown:
            yield top, dirs, files
            for d in dirs:
                p = os.path.join(top, d)
                if followlinks or not os.path.islink(os.path.join(self.real(rel), d)):
                    yield from self.s_walk(p, topdown, onerror, followlinks)
        else:
            for d in dirs:
                p = os.path.join(top, d)
                if followlinks or not os.path.islink(os.path.join(self.real(rel), d)):
                    yield from self.s_walk(p, topdown, onerror, followlinks)
            yield top, dirs, files

    def s_listdir(self, path="."):
        rel = self.rel(path)
        if rel is None:
            return _o.listdir(self.outside(path))
        idx, _ = self.ev.point("listdir", rel, None)
        names = self.arrange(rel, _o.listdir(self.real(rel)))
        self.ev.after(idx)
        return names

    def s_scandir(self, path="."):
        rel = self.rel(path)
        if rel is None:
            return _o.scandir(path)
        idx, _ = self.ev.point("scandir", rel, None)
        entries = {e.name: e for e in self._scan(self.real(rel))}
        ordered = [entries[n] for n in self.arrange(rel, list(entries))]
        self.ev.after(idx)
        return _ScandirResult(ordered)

    def _mut(self, kind, orig, nargs):
        fs = self

        def wrapper(*a, **kw):
            rels = [fs.rel(x) for x in a[:nargs]]
            if kw.get("dir_fd") is not None or kw.get("src_dir_fd") is not None or kw.get("dst_dir_fd") is not None:
                fs.mutations.append((kind + "@dirfd", str(a[:nargs])))
                return orig(*a, **kw)
            if all(r is None for r in rels):
                return orig(*a, **kw)
            rel = next(r for r in rels if r is not None)
            ekind = "remove" if kind in ("remove", "unlink") else kind
            idx, f = fs.ev.point(ekind, rel, None)
            if f is not None and f["kind"] in ("error", "short"):
                raise _oserror(f.get("errno", "EACCES"), a[0])
            a = tuple(fs.real(r) if (i < nargs and r is not None) else x for i, (x, r) in enumerate(zip(a, rels + [None] * len(a))))
            res = orig(*a, **kw)
            fs._rd_cache.clear()
            fs.mutations.append((kind, rel))
            fs.ev.after(idx)
            return res
        wrapper.__name__ = kind
        return wrapper

    def s_os_open(self, path, flags, mode=0o777, *, dir_fd=None):
        rel = self.rel(path) if dir_fd is None else None
        if rel is not None and flags & (os.O_WRONLY | os.O_RDWR | os.O_CREAT | os.O_TRUNC | os.O_APPEND):
            idx, f = self.ev.point("open_out", rel, ["os.open"])
            if f is not None and f["kind"] in ("error", "short", "short_ok"):
                raise _oserror(f.get("errno", "ENOSPC"), path)
            self.mutations.append(("open_out", rel))
            fd = _o.os_open(self.real(rel), flags, mode)
            self.fds[fd] = rel
            self.ev.after(idx)
            return fd
        if dir_fd is None:
            return _o.os_open(path, flags, mode)
        return _o.os_open(path, flags, mode, dir_fd=dir_fd)

    # file-descriptor level output (os.write / os.fsync / os.close on a tracked fd)
    def s_os_write(self, fd, data):
        rel = self.fds.get(fd) if self.active else None
        if rel is None:
            return _o.os_write(fd, data)
        n = len(data)
        idx, f = self.ev.point("write", rel, [n, 1, "fd"])
        if f is not None and f["kind"] in ("error", "short"):
            if f["kind"] == "short":
                _o.os_write(fd, bytes(data[:min(int(f.get("keep", 0)), n)]))
            raise _oserror(f.get("errno", "ENOSPC"), rel)
        if f is not None and f["kind"] == "short_ok" and n > 1:
            # a legal short write: fewer bytes than requested, no error
            k = max(1, min(int(f.get("keep", 1)), n - 1))
            res = _o.os_write(fd, bytes(data[:k]))
        else:
            res = _o.os_write(fd, data)
        self.ev.after(idx)
        return res

    def s_os_fsync(self, fd):
        rel = self.fds.get(fd) if self.active else None
        if rel is None:
            return self._saved["fsync"](fd)
        idx, f = self.ev.point("flush", rel, [0, "fsync"])
        if f is not None and f["kind"] in ("error", "short"):
            raise _oserror(f.get("errno", "EIO"), rel)
        res = self._saved["fsync"](fd)
        self.ev.after(idx)
        return res

    def s_os_close(self, fd):
        rel = self.fds.get(fd) if self.active else None
        if rel is None:
            return _o.os_close(fd)
        del self.fds[fd]
        if self.ev.crashed:
            _o.os_close(fd)
            raise SimCrash("dead")
        try:
            idx, f = self.ev.point("close", rel, [0, "fd"])
        except SimCrash:
            _o.os_close(fd)
            raise
        _o.os_close(fd)
        if f is not None and f["kind"] in ("error", "short"):
            raise _oserror(f.get("errno", "EIO"), rel)
        self.ev.after(idx)

    def s_stat(self, path, *a, **kw):
        if (self.mounts or self.share) and self.active and not kw.get("dir_fd"):
            rel = self.rel(path)
            if rel is not None:
                return _o.stat(self.real(rel), *a, **kw)
        return _o.stat(self.outside(path) if self.share else path, *a, **kw)

    def s_lstat(self, path, *a, **kw):
        if self.mounts and self.active and not kw.get("dir_fd"):
            rel = self.rel(path)
            if rel is not None:
                return _o.lstat(self.real(rel), *a, **kw)
        return _o.lstat(path, *a, **kw)

    # ---- install / uninstall
    def install(self):
        if self.installed:
            return
        self._saved = {}
        patch = {"walk": self.s_walk, "listdir": self.s_listdir, "scandir": self.s_scandir,
                 "open": self.s_os_open, "write": self.s_os_write, "fsync": self.s_os_fsync, "close": self.s_os_close,
                 "stat": self.s_stat, "lstat": self.s_lstat}
        for name, n in (("remove", 1), ("unlink", 1), ("rename", 2), ("replace", 2), ("rmdir", 1),
                        ("mkdir", 1), ("makedirs", 1), ("truncate", 1), ("link", 2), ("symlink", 2),
                        ("removedirs", 1), ("renames", 2), ("chmod", 1), ("utime", 1)):
            patch[name] = self._mut(name, getattr(os, name), n)
        for k, v in patch.items():
            self._saved[k] = getattr(os, k)
            setattr(os, k, v)
        builtins.open = self.s_open
        io.open = self.s_open
        import signal
        signal.alarm = self.s_alarm
        signal.setitimer = self.s_setitimer
        self.installed = True

    def uninstall(self):
        if not self.installed:
            return
        for k, v in self._saved.items():
            setattr(os, k, v)
        builtins.open = _o.open
        io.open = _o.io_open
        import signal
        signal.alarm = _o_alarm
        signal.setitimer = _o_setitimer
        try:
            if signal.getsignal(signal.SIGALRM) not in (signal.SIG_DFL, signal.SIG_IGN, None):
                signal.signal(signal.SIGALRM, signal.SIG_DFL)       # a handler the code under test left behind
        except ValueError:
            pass
        self.installed = False

    # ---- per-op reset
    # ---- virtual clock and interval timer (signal.alarm / setitimer): the only clock the code under test could
    # arm.  Time passes only as the plan says (`tick` seconds of slow storage per I/O event); an armed timer whose
    # deadline is reached is delivered at the next I/O event by calling the registered SIGALRM handler there.
    def s_alarm(self, seconds):
        left = 0 if self.alarm_due is None else max(1, int(self.alarm_due - self.vclock + 0.999))
        self.alarm_due = (self.vclock + seconds) if seconds else None
        self.timer_stats["armed" if seconds else "cancelled"] = self.timer_stats.get("armed" if seconds else "cancelled", 0) + 1
        return left

    def s_setitimer(self, which, seconds, interval=0.0):
        import signal
        if which != signal.ITIMER_REAL:
            return _o_setitimer(which, seconds, interval)
        left = 0.0 if self.alarm_due is None else max(0.0, self.alarm_due - self.vclock)
        self.alarm_due = (self.vclock + seconds) if seconds else None
        self.timer_stats["armed" if seconds else "cancelled"] = self.timer_stats.get("armed" if seconds else "cancelled", 0) + 1
        return (left, 0.0)

    def _tick(self):
        self.vclock += self.tick
        if self.alarm_due is not None and self.vclock >= self.alarm_due:
            import signal
            self.alarm_due = None
            self.timer_stats["fired"] = self.timer_stats.get("fired", 0) + 1
            h = signal.getsignal(signal.SIGALRM)
            if callable(h):
                h(signal.SIGALRM, sys._getframe(1))
            elif h == signal.SIG_DFL:
                self.ev.crashed = True
                raise SimCrash("killed by SIGALRM")

    def begin_op(self, order, faults, file_bufsize):
        self.ev = Events(faults)
        self.ev.on_event = self._tick if (self.tick or self.alarm_due is not None) else None
        self.order = order or {"policy": "asc", "key": 0}
        self.file_bufsize = file_bufsize
        self.open_files = []
        self.mutations = []
        self.listings = []
        self._rd_cache = {}

    def end_op(self, interpreter_exit=True):
        """What the interpreter does with file objects nobody closed: CPython
        flushes+closes them when they are collected (at the latest at exit)."""
        for fd in list(self.fds):
            # the kernel closes descriptors at process exit; written bytes stay
            try:
                _o.os_close(fd)
            except OSError:
                pass
        self.fds.clear()
        leaked = [f for f in self.open_files if not f.closed]
        for f in leaked:
            if self.ev.crashed:
                f._abandon()
            else:
                try:
                    f.close()
                except (OSError, SimCrash):
                    pass
        return len(leaked)


class _ScandirResult:
    def __init__(self, entries):
        self._it = iter(entries)

    def __iter__(self):
        return self

    def __next__(self):
        return next(self._it)

    def __enter__(self):
        return self

    def __exit__(self, *a):
        return False

    def close(self):
        pass


# =============================================================================
# snapshots of the real backing tree
# =============================================================================
def snapshot(root):
    """{relpath: ('d',) | ('f', size, sha256)} – uses the original os functions"""
    snap = {}
    root = os.path.realpath(root)
    stack = [root]
    while stack:
        d = stack.pop()
        with _o.scandir(d) as it:
            for e in it:
                rel = os.path.relpath(e.path, root)
                if e.is_symlink():
                    snap[rel] = ("l", os.readlink(e.path), os.path.isfile(e.path))   # target, resolves to a regular file?
                elif e.is_dir():
                    snap[rel] = ("d",)
                    stack.append(e.path)
                elif not e.is_file():
                    snap[rel] = ("o",)          # socket, fifo, device: never opened
                else:
                    with _o.open(e.path, "rb") as fd:
                        data = fd.read()
                    snap[rel] = ("f", len(data), hashlib.sha256(data).hexdigest())
    return snap


def read_file(path):
    with _o.open(path, "rb") as fd:
        return fd.read()


def write_file(path, data):
    _o.makedirs(os.path.dirname(path), exist_ok=True)
    with _o.open(path, "wb") as fd:
        fd.write(data)


# =============================================================================
# fake parser plugins
# =============================================================================
def _digest(*parts):
    h = hashlib.sha256()
    for p in parts:
        h.update(repr(p).encode())
        h.update(b"\x00")
    return h.digest()


def choose_behaviour(spec, func, args):
    """pure function of (spec.salt, func, args)"""
    weights = spec.get("weights") or {"ok": 1}
    items = sorted(weights.items())
    total = sum(w for _, w in items)
    if total <= 0:
        return "ok"
    x = int.from_bytes(_digest(spec.get("salt", 0), func, args)[:8], "big") % total
    for name, w in items:
        if x < w:
            return name
        x -= w
    return items[-1][0]


class PluginHost(importlib.abc.MetaPathFinder, importlib.abc.Loader):
    """Serves fake modules for the names in `specs`:
       {fullname: {"type": "ud"|"src"|"callout"|"registry"|"pkg",
                   "import": "ok"|"ImportError"|"SyntaxError"|"ValueError",
                   "weights": {...}, "salt": int}}
    Parent packages that do not exist on disk are synthesised."""

    WATCH = ("udparsers.", "srcparsers.", "calloutparsers.", "pel_registry")

    def __init__(self, specs, registry_dir=None):
        self.specs = dict(specs or {})
        self.registry_dir = registry_dir
        self.import_log = []     # every watched name the import system asked for
        self.exec_log = []       # fake modules actually executed
        self.calls = []          # (module, func, args, behaviour)
        self.transient_done = {}
        self.pkgs = set()
        for name in list(self.specs):
            parts = name.split(".")
            for i in range(2, len(parts)):
                self.pkgs.add(".".join(parts[:i]))

    def find_spec(self, fullname, path=None, target=None):
        if fullname.startswith(self.WATCH):
            self.import_log.append(fullname)
        if fullname in self.specs:
            return importlib.machinery.ModuleSpec(fullname, self, is_package=False)
        if fullname in self.pkgs:
            return importlib.machinery.ModuleSpec(fullname, self, is_package=True)
        return None

    def create_module(self, spec):
        return None

    def exec_module(self, module):
        name = module.__name__
        if name in self.pkgs and name not in self.specs:
            module.__path__ = []
            return
        spec = self.specs[name]
        self.exec_log.append(name)
        if spec.get("transient", 0) > self.transient_done.get(name, 0):
            # a transient environment failure while the module is being loaded (too many open files); the next
            # import attempt succeeds
            self.transient_done[name] = self.transient_done.get(name, 0) + 1
            raise OSError(_errno.EMFILE, "Too many open files", name)
        imp = spec.get("import", "ok")
        if imp == "ImportError":
            raise ImportError("cannot import name 'helper' from fake dependency of %s" % name)
        if imp == "ModuleNotFoundError":
            raise ModuleNotFoundError("No module named 'optional_dep_of_%s'" % name.rsplit(".", 1)[-1])
        if imp == "SyntaxError":
            raise SyntaxError("invalid syntax (fake %s)" % name)
        if imp == "ValueError":
            raise ValueError("module level failure in %s" % name)
        t = spec["type"]
        host = self

        def behave(func, args):
            b = choose_behaviour(spec, func, args)
            host.calls.append((name, func, args, b))
            if b == "raise":
                raise ValueError("fake failure in %s.%s" % (name, func))
            if b == "keyerror":
                raise KeyError("fake-missing-key")
            if b == "raise_noargs":
                # exceptions that carry no arguments: bare assert / NotImplementedError / KeyError()
                raise [AssertionError, NotImplementedError, KeyError][len(repr(args)) % 3]()
            if b == "importerror":
                raise ImportError("No module named 'lazy_optional_dep'")
            if b == "modulenotfound":
                raise ModuleNotFoundError("No module named 'lazy_optional_dep'")
            return b

        if t == "ud":
            def parseUDToJson(subType, version, data):
                args = (int(subType), int(version), bytes(data))
                try:
                    b = behave("parseUDToJson", args)
                except ValueError:
                    if isinstance(data, memoryview) and not data.readonly and len(data):
                        data[0] = data[0] ^ 0xFF    # a parser working in place (byte swap ...) on a buffer that lets it
                    if choose_behaviour(spec, "release?", args) == "ok" and isinstance(data, memoryview):
                        data.release()          # a parser that used `with data:` before failing
                    raise
                if b == "none":
                    return None
                tag = hashlib.sha256(bytes(data)).hexdigest()[:16]
                if b == "list":
                    return json.dumps(["fake", name, tag])
                return json.dumps({"Fake Parser": name, "Sub Type": int(subType), "Ver": int(version),
                                   "Len": len(data), "Tag": tag})
            if spec.get("salt", 0) % 2:
                module.parseUDToJson = lambda sub_type, ver, mv: parseUDToJson(sub_type, ver, mv)
            else:
                module.parseUDToJson = parseUDToJson
        elif t == "src":
            def parseSRCToJson(refcode, word2, word3, word4, word5, word6, word7, word8, word9):
                args = (refcode, word2, word3, word4, word5, word6, word7, word8, word9)
                b = behave("parseSRCToJson", args)
                if b == "none":
                    return None
                if b == "null":
                    return "null"
                if b == "empty":
                    return ""
                return json.dumps({"Fake SRC Parser": name, "Ref": refcode.strip(),
                                   "Tag": hashlib.sha256(repr(args).encode()).hexdigest()[:16]})
            if spec.get("salt", 0) % 2:
                # parameter names as in the OpenPOWER PEL README: parsers are called positionally
                module.parseSRCToJson = lambda ascii_str, w2, w3, w4, w5, w6, w7, w8, w9: \
                    parseSRCToJson(ascii_str, w2, w3, w4, w5, w6, w7, w8, w9)
            else:
                module.parseSRCToJson = parseSRCToJson
        elif t == "callout":
            def getMaintProcDesc(procName):
                args = (procName,)
                b = behave("getMaintProcDesc", args)
                if b == "none":
                    return None
                if b == "empty":
                    return ""
                return json.dumps(["fake description of " + str(procName), name])
            if spec.get("salt", 0) % 2:
                module.getMaintProcDesc = lambda procedure: getMaintProcDesc(procedure)
            else:
                module.getMaintProcDesc = getMaintProcDesc
        elif t == "registry":
            d = self.registry_dir
            module.__file__ = os.path.join(d, "__init__.py")

            def get_registry_path():
                return os.path.join(d, "message_registry.json")
            module.get_registry_path = get_registry_path
        else:
            raise HarnessError("unknown plugin type %r" % t)


# =============================================================================
# World: one run
# =============================================================================
def purge_modules():
    for name in list(sys.modules):
        top = name.split(".", 1)[0]
        if top in PURGE_PREFIXES:
            del sys.modules[name]


LONG_OPTS = {"-p": "--path", "-P": "--skip-parser-plugins", "-f": "--file", "-l": "--list", "-a": "--all-pels", "-n": "--show-pel-count",
             "-d": "--delete", "-D": "--delete-all", "-i": "--id", "-x": "--hex", "-r": "--reverse", "-e": "--extension",
             "-E": "--every-pel", "-s": "--serviceable", "-N": "--non-serviceable", "-H": "--hidden", "-t": "--termination",
             "-S": "--severities", "-O": "--only", "-j": "--json", "-o": "--output-dir", "-c": "--clean", "-A": "--archive"}


class OpResult:
    def to_json(self):
        return {k: getattr(self, k) for k in ("argv", "exit", "exc", "stdout", "stderr", "crashed")}


_counter = [0]


class World:
    """Fresh module set + SimFS + plugin host for one run."""

    BMC_LOGS = "/var/lib/phosphor-logging/extensions/pels/logs"
    BMC_SHARE = "/usr/share/phosphor-logging/pels"

    def __init__(self, plugins=None, registry=None, tag="w", bmc=False):
        _counter[0] += 1
        # fixed width: the length of the path reaches the event log through
        # the byte counts of messages that mention it
        self.root = os.path.join(SCRATCH_BASE, "verif-%08d-%s%06d" % (os.getpid(), tag[:1], _counter[0]))
        if os.path.exists(self.root):
            shutil.rmtree(self.root)
        _o.makedirs(self.root)
        self.fs = SimFS(self.root)
        self.regdir = None
        specs = dict(plugins or {})
        self.bmc = bmc or None
        if bmc:
            # "running on the BMC": the tool's default PEL directory exists and is served from <root>/<bmc> (the
            # directory the check calls its PEL directory); there is no -p option, -A selects <default>/archive, and
            # the registry lives under /usr/share/phosphor-logging/pels (served from a directory outside the root)
            _o.makedirs(os.path.join(self.root, bmc), exist_ok=True)
            self.fs.mounts.append((self.BMC_LOGS, os.path.join(self.fs.root, bmc)))
        if registry is not None and bmc:
            share = self.root + "-share"
            self.regdir = share
            write_file(os.path.join(share, "message_registry.json"), json.dumps({"PELs": registry.get("pels", [])}).encode())
            for creator, table in (registry.get("component_ids") or {}).items():
                write_file(os.path.join(share, creator + "_component_ids.json"), json.dumps(table).encode())
            self.fs.share = (self.BMC_SHARE, share)
            registry = None
        if registry is not None:
            # the fake pel_registry lives *outside* the simulated root so its
            # files are not part of the PEL directory tree
            self.regdir = self.root + "-reg"
            _o.makedirs(self.regdir, exist_ok=True)
            write_file(os.path.join(self.regdir, "message_registry.json"),
                       json.dumps({"PELs": registry.get("pels", [])}).encode())
            for creator, table in (registry.get("component_ids") or {}).items():
                write_file(os.path.join(self.regdir, creator + "_component_ids.json"), json.dumps(table).encode())
            specs["pel_registry"] = {"type": "registry"}
        self.host = PluginHost(specs, self.regdir)
        self.peltool = None
        self.fresh_per_run = False
        self.long_opts = False       # spell options in their long form (--list instead of -l ...)
        self.path_style = "abs"      # how directory / file arguments are spelled: abs | rel | slash
        self.rel_dot = False
        self.dotdot_via = None       # (directory, sub-directory) for path_style "dotdot"
        self._saved_path = None
        self._saved_meta = None

    # ---- lifecycle
    def start(self):
        purge_modules()
        importlib.invalidate_caches()
        self._saved_path = list(sys.path)
        self._saved_meta = list(sys.meta_path)
        sys.path.insert(0, MODULES)
        sys.meta_path.insert(0, self.host)
        self.fs.install()
        # the module set is imported with its own stdout / stderr objects: whatever the code under test binds at
        # import time (default arguments, module-level handles) is not the harness's own stream
        err = io.StringIO()
        saved = (sys.stdout, sys.stderr)
        sys.stdout, sys.stderr = io.StringIO(), err
        try:
            self.peltool = importlib.import_module("pel.peltool.peltool")
        finally:
            sys.stdout, sys.stderr = saved
        if not getattr(self.peltool, "__file__", "").startswith(MODULES):
            raise HarnessError("peltool imported from %r, expected below %s" % (self.peltool.__file__, MODULES))
        return self

    def fresh_modules(self):
        """purge + re-import inside the same world (used for the pristine twin)"""
        purge_modules()
        importlib.invalidate_caches()
        err, saved_err = io.StringIO(), (sys.stdout, sys.stderr)
        sys.stdout, sys.stderr = io.StringIO(), err
        try:
            self.peltool = importlib.import_module("pel.peltool.peltool")
        finally:
            sys.stdout, sys.stderr = saved_err

    def in_pristine_modules(self, fn):
        """run fn() with a freshly imported module set (same environment),
        then put the long-lived module set back untouched"""
        saved = {n: m for n, m in sys.modules.items() if n.split(".", 1)[0] in PURGE_PREFIXES}
        lived = self.peltool
        timer = (self.fs.alarm_due, self.fs.vclock, _signal.getsignal(_signal.SIGALRM))
        self.fs.alarm_due = None
        purge_modules()
        importlib.invalidate_caches()
        err, saved_err = io.StringIO(), (sys.stdout, sys.stderr)
        sys.stdout, sys.stderr = io.StringIO(), err
        try:
            self.peltool = importlib.import_module("pel.peltool.peltool")
        finally:
            sys.stdout, sys.stderr = saved_err
        try:
            return fn()
        finally:
            purge_modules()
            sys.modules.update(saved)
            self.peltool = lived
            self.fs.alarm_due, self.fs.vclock = timer[0], timer[1]
            try:
                if _signal.getsignal(_signal.SIGALRM) is not timer[2] and timer[2] is not None:
                    _signal.signal(_signal.SIGALRM, timer[2])
            except ValueError:
                pass

    def stop(self):
        self.fs.uninstall()
        if self._saved_meta is not None:
            sys.meta_path[:] = self._saved_meta
        if self._saved_path is not None:
            sys.path[:] = self._saved_path
        purge_modules()
        shutil.rmtree(self.root, ignore_errors=True)
        if self.regdir:
            shutil.rmtree(self.regdir, ignore_errors=True)

    def __enter__(self):
        return self.start()

    def __exit__(self, *a):
        self.stop()
        return False

    # ---- tree
    def path(self, rel):
        return os.path.join(self.root, rel)

    def put(self, rel, data):
        write_file(self.path(rel), data)

    def symlink(self, rel, target_rel):
        """create rel as a symbolic link to another path of the simulated tree (relative link)"""
        _o.makedirs(os.path.dirname(self.path(rel)), exist_ok=True)
        _o.symlink(os.path.relpath(self.path(target_rel), os.path.dirname(self.path(rel))), self.path(rel))

    def mkdir(self, rel):
        _o.makedirs(self.path(rel), exist_ok=True)

    def exists(self, rel):
        return os.path.lexists(self.path(rel))

    def read(self, rel):
        return read_file(self.path(rel))

    def snapshot(self):
        return snapshot(self.root)

    # ---- run one CLI invocation in-process
    def run(self, argv, order=None, faults=None, file_bufsize=None, stdout_bufsize=None,
            exit_flush=True, stdout_encoding="utf-8", stdout_closed=False, cwd=None):
        """argv: list of str where '@/x' is replaced by <root>/x (absolute; with path_style 'rel' relative to the
        current directory, which is then the root; with 'slash' directories get a trailing '/')."""
        def tr(a):
            if a == "@":
                return self.root
            if not a.startswith("@/"):
                return a
            p = self.path(a[2:])
            if self.path_style == "rel":
                p = os.path.join(".", a[2:]) if self.rel_dot else a[2:]
            if self.path_style == "slash" and os.path.isdir(self.path(a[2:])):
                p += "/"
            if self.path_style == "dotdot" and self.dotdot_via and a[2:] == self.dotdot_via[0]:
                # "<link to a sub-directory>/..": physically the directory itself, lexically something else
                link = self.path("LNK")
                if not os.path.islink(link):
                    _o.symlink(os.path.join(self.dotdot_via[0], self.dotdot_via[1]), link)
                p = os.path.join(link, "..")
            return p
        real = [tr(a) for a in argv]
        if self.long_opts:
            real = [LONG_OPTS.get(a, a) for a in real]
            argv = [LONG_OPTS.get(a, a) for a in argv]
        if self.bmc:
            # on the BMC there is no -p: the PEL directory is the built-in default, its archive is reached with -A
            out_argv, i = [], 0
            while i < len(argv):
                if argv[i] in ("-p", "--path") and i + 1 < len(argv) and argv[i + 1] in ("@/" + self.bmc, "@/" + self.bmc + "/archive"):
                    if argv[i + 1].endswith("/archive"):
                        out_argv.append("-A")
                    i += 2
                    continue
                out_argv.append(argv[i])
                i += 1
            real = [tr(a) for a in out_argv]
        if self.fresh_per_run:
            # every CLI invocation is its own process: nothing survives from the previous one
            self.fresh_modules()
            self.fs.alarm_due = None
        fs = self.fs
        fs.begin_op(order, faults, file_bufsize)
        out = SimStream(fs.ev, stdout_bufsize, "stdout", stdout_encoding)
        err = PlainCapture()
        res = OpResult()
        res.argv = list(argv)
        res.exit, res.exc, res.exit_flush_error = None, None, None
        saved = (sys.argv, sys.stdout, sys.stderr)
        sys.argv = ["peltool.py"] + real
        sys.stdout, sys.stderr = (None if stdout_closed else out), err      # `>&-`: the interpreter starts with sys.stdout = None
        # the process always runs inside the scratch tree (its root unless the plan names a directory): whatever the
        # code under test writes relative to its working directory lands where snapshots see it and teardown removes it
        saved_cwd = os.getcwd()
        os.chdir(os.path.join(self.root, cwd) if cwd else self.root)
        fs.active = True
        try:
            try:
                self.peltool.main()
                res.exit = 0
            except SystemExit as e:
                res.exit = e.code if e.code is not None else 0
                if isinstance(res.exit, str):
                    # sys.exit("message") prints the message to stderr, status 1
                    err.write(res.exit + "\n")
            except SimCrash:
                pass
            except BaseException as e:       # noqa – classified by the caller
                res.exc = "%s: %s" % (type(e).__name__, e)
                import traceback
                err.write(traceback.format_exc())
            # interpreter shutdown: flush stdout, then collect leaked files
            if not fs.ev.crashed and exit_flush and not stdout_closed:
                try:
                    out.flush()
                except OSError as e:
                    res.exit_flush_error = "%s" % e
                except SimCrash:
                    pass
            res.leaked = fs.end_op()
        finally:
            fs.active = False
            os.chdir(saved_cwd)
            sys.argv, sys.stdout, sys.stderr = saved
        res.crashed = fs.ev.crashed
        # the scratch path is process specific: never let it reach oracles, logs or digests
        res.stdout = self.scrub(out.value())
        res.stdout_delivered = self.scrub(out.delivered_value())
        res.stderr = self.scrub(err.getvalue())
        res.events = fs.ev.log
        res.fired = fs.ev.fired
        res.mutations = list(fs.mutations)
        res.listings = list(fs.listings)
        res.digest = fs.ev.digest()
        return res

    def scrub(self, text):
        """remove the scratch path from text destined for logs / digests"""
        return text.replace(self.root, "@")
