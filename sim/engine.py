"""
Seeded search driver shared by all checks.

A check module provides
    PROPERTY, LEVEL ("exploration" | "fault_enumeration"), RULE (str),
    COMPONENTS {"real": [...], "stub": [...]}, ASSUMPTIONS [...]
    TIERS = {"quick": {"runs": N, "wall": seconds}, "thorough": {...}}
    MODES = ["O0"] or ["O0", "O1"]                (interpreter optimisation)
    gen_plan(rng, tier, run) -> plan (JSON-able dict)
    execute(plan) -> {"violations": [ {"class":..., "key":..., "detail":...} ],
                      "stats": {counter: int}, "traces": [str], "events": int,
                      "evals": int, "digest": str, "sample": any}
    shrink_candidates(plan, violation) -> iterable of smaller plans

One integer (VERIF_SEED) decides every plan: plan(run) is built from
random.Random(f"{seed}:{PROPERTY}:{run}").  Executing a plan draws no random
numbers, so the (minimised) plan is the replay file.
"""
import collections
import concurrent.futures as cf
import faulthandler
import hashlib
import importlib
import json
import multiprocessing
import os
import random
import subprocess
import sys
import time
import traceback

VERIF = os.path.dirname(os.path.dirname(os.path.abspath(__file__)))
PY = sys.executable
KNOWN_FINDINGS = os.environ.get("VERIF_KNOWN_FINDINGS") or os.path.join(VERIF, "known_findings.json")


def load_check(prop):
    return importlib.import_module("checks." + prop.lower())


def plan_for(mod, seed, tier, run):
    rng = random.Random("%s:%s:%s" % (seed, mod.PROPERTY, run))
    plan = mod.gen_plan(rng, tier, run)
    plan["_run"] = run
    # how options are spelled on the command line (-l / --list): drawn last, so that older plans stay unchanged
    plan.setdefault("long_opts", random.Random("%s:%s:%s:opts" % (seed, mod.PROPERTY, run)).random() < 0.3)
    return plan


def canonical(plan):
    return json.loads(json.dumps(plan))


def run_one(mod, plan):
    """execute a plan; harness exceptions are kept apart from violations"""
    try:
        res = mod.execute(canonical(plan))
        res.setdefault("violations", [])
        res.setdefault("stats", {})
        res.setdefault("traces", [])
        res.setdefault("events", 0)
        res.setdefault("evals", 1)
        return res
    except BaseException as e:          # noqa
        if isinstance(e, KeyboardInterrupt):
            raise
        return {"harness_error": "%s: %s\n%s" % (type(e).__name__, e, traceback.format_exc()),
                "violations": [], "stats": {}, "traces": [], "events": 0, "evals": 0}


def _batch(args):
    prop, seed, tier, runs, mode = args
    mod = load_check(prop)
    out = []
    for run in runs:
        # wall-clock watchdog per plan (a hang inside repository code is caught by the step budget of C05; this
        # only guards the harness): the worker dies, which the engine reports as a harness error, never as a verdict
        faulthandler.dump_traceback_later(getattr(mod, "PLAN_WATCHDOG_S", 900), exit=True)
        if os.environ.get("VERIF_TEST_KILL_RUN") == str(run):
            os._exit(9)                 # self-test of the engine: a worker that dies abruptly
        plan = plan_for(mod, seed, tier, run)
        plan["_mode"] = mode
        t = time.time()
        res = run_one(mod, plan)
        res["run"] = run
        res["wall"] = time.time() - t
        if res["violations"] or res.get("harness_error"):
            res["plan"] = plan
        elif run < 3:
            res["plan_sample"] = plan
        out.append(res)
    faulthandler.cancel_dump_traceback_later()
    return out


def engine(prop, seed, tier, mode, nruns, wall, workers, first_run=0):
    """run `nruns` plans in this interpreter's optimisation mode; returns a
    JSON-able partial result"""
    mod = load_check(prop)
    t0 = time.time()
    known_keys = {k["key"] for k in load_known() if k.get("status") == "known" and k["property"] == prop}
    agg = {"runs": 0, "evals": 0, "events": 0, "stats": collections.Counter(), "traces": set(),
           "violations": [], "harness_errors": [], "samples": [], "mode": mode, "wall_hit": False}
    batch = max(1, min(getattr(load_check(prop), "BATCH", 8), nruns // (workers * 4) or 1))
    tasks = [(prop, seed, tier, list(range(i, min(i + batch, first_run + nruns))), mode)
             for i in range(first_run, first_run + nruns, batch)]
    ctx = multiprocessing.get_context("fork")

    def absorb(results):
        for r in results:
            agg["runs"] += 1
            agg["evals"] += r["evals"]
            agg["events"] += r["events"]
            agg["stats"].update(r["stats"])
            agg["traces"].update(r["traces"])
            if r.get("harness_error"):
                agg["harness_errors"].append("run %d: %s" % (r["run"], r["harness_error"]))
            for v in r["violations"]:
                if len(agg["violations"]) < 400 or v["key"] not in known_keys:
                    agg["violations"].append({"run": r["run"], "violation": v, "plan": r["plan"]})
            if "plan_sample" in r and len(agg["samples"]) < 3:
                agg["samples"].append(r.get("sample") or r["plan_sample"])

    def pool_pass(task_list, final, nworkers):
        """run tasks in one pool; returns (tasks in flight when a worker process died, tasks never started)"""
        inflight, queued = [], []
        with cf.ProcessPoolExecutor(max_workers=nworkers, mp_context=ctx) as ex:
            pending = {}
            it = iter(task_list)
            broken = [False]

            def submit_more():
                while len(pending) < nworkers * 2 and not broken[0]:
                    if time.time() - t0 > wall and not final:
                        agg["wall_hit"] = True
                        return
                    try:
                        t = next(it)
                    except StopIteration:
                        return
                    try:
                        pending[ex.submit(_batch, t)] = t
                    except cf.process.BrokenProcessPool:
                        broken[0] = True
                        queued.append(t)
            submit_more()
            while pending:
                done, _ = cf.wait(list(pending), timeout=max(1.0, wall * 3 + 120 - (time.time() - t0)),
                                  return_when=cf.FIRST_COMPLETED)
                if not done:
                    agg["harness_errors"].append("watchdog: workers made no progress")
                    for f in pending:
                        f.cancel()
                    break
                for f in done:
                    task = pending.pop(f)
                    try:
                        absorb(f.result())
                    except cf.process.BrokenProcessPool:
                        broken[0] = True
                        inflight.append(task)
                    except BaseException as e:      # noqa
                        agg["harness_errors"].append("worker failed on runs %s: %r" % (task[3], e))
                # stop early once plenty of violations are collected (listed known findings do not count, so that
                # they cannot starve the search for anything else)
                if sum(1 for v in agg["violations"] if v["violation"]["key"] not in known_keys) < 50:
                    submit_more()
            if broken[0]:
                queued.extend(it)          # never submitted
        return inflight, queued

    def singles(ts):
        return [(t[0], t[1], t[2], [r], t[4]) for t in ts for r in t[3]]

    inflight, queued = pool_pass(tasks, False, workers)
    passes = 0
    while (inflight or queued) and passes < 6:
        # a worker process died (watchdog, out of memory ...).  The plans that were queued run again first, the ones
        # that were in flight (one of them is the culprit) last, one plan per task.
        passes += 1
        todo = singles(queued) + singles(inflight)
        if time.time() - t0 > wall:
            todo = singles(inflight)        # out of time: only settle who the culprit is
        if len(todo) <= workers * 2:
            break
        inflight, queued = pool_pass(todo, True, workers)
    for t in singles(queued) + singles(inflight) if (inflight or queued) else []:
        # the few remaining suspects: each alone in its own worker
        a, b = pool_pass([t], True, 1)
        if a or b:
            agg["harness_errors"].append("the worker died while executing run %s" % t[3][0])
    agg["stats"] = dict(agg["stats"])
    agg["traces"] = sorted(agg["traces"])
    agg["wall_s"] = time.time() - t0
    return agg


# ----------------------------------------------------------------------------
def load_known():
    try:
        with open(KNOWN_FINDINGS) as fd:
            return json.load(fd).get("findings", [])
    except FileNotFoundError:
        return []


def shrink(mod, plan, violation, budget_s=120, log=None):
    """greedy delta debugging: accept any candidate that still shows a
    violation with the same key"""
    key = violation["key"]
    t0 = time.time()
    best = canonical(plan)
    cur = violation
    steps = 0
    improved = True
    while improved and time.time() - t0 < budget_s:
        improved = False
        for cand in mod.shrink_candidates(canonical(best), cur):
            if time.time() - t0 > budget_s:
                break
            steps += 1
            cand["_mode"] = best.get("_mode", "O0")
            cand["_run"] = best.get("_run", 0)
            res = run_one(mod, cand)
            if res.get("harness_error"):
                continue
            hit = [v for v in res["violations"] if v["key"] == key]
            if hit:
                cur = hit[0]
                best = canonical(cand)
                improved = True
                break
    return best, steps


def shrink_and_run(mod, prop, plan, violation, budget_s):
    """minimise (budget_s > 0) and execute the final plan once more to record its digest – in an interpreter of
    the plan's optimisation mode (C05 plans of mode O1 only make sense under `python -O`)"""
    want_opt = plan.get("_mode", "O0") == "O1"
    if want_opt == (sys.flags.optimize > 0):
        steps = 0
        if budget_s > 0:
            plan, steps = shrink(mod, plan, violation, budget_s=budget_s)
        res = run_one(mod, plan)
        vio = next((v for v in res["violations"] if v["key"] == violation["key"]), violation)
        return plan, steps, {"digest": res.get("digest")}, vio
    scratch = os.environ.get("VERIF_SCRATCH", "/dev/shm")
    fin = os.path.join(scratch, "verif-part-%d-shrink-in.json" % os.getpid())
    fout = os.path.join(scratch, "verif-part-%d-shrink-out.json" % os.getpid())
    with open(fin, "w") as fd:
        json.dump({"plan": plan, "violation": violation, "budget": budget_s}, fd)
    try:
        cmd = [PY] + (["-O"] if want_opt else []) + [os.path.join(VERIF, "check"), prop, "--shrink-file", fin, "--out", fout]
        rc = subprocess.call(cmd)
        if rc != 0 or not os.path.exists(fout):
            return plan, 0, {"digest": None}, violation
        with open(fout) as fd:
            o = json.load(fd)
        return o["plan"], o["steps"], {"digest": o["digest"]}, o["violation"]
    finally:
        for f in (fin, fout):
            if os.path.exists(f):
                os.unlink(f)


def shrink_file(prop, fin, fout):
    mod = load_check(prop)
    with open(fin) as fd:
        d = json.load(fd)
    plan, steps, res, vio = shrink_and_run(mod, prop, d["plan"], d["violation"], d["budget"])
    with open(fout, "w") as fd:
        json.dump({"plan": plan, "steps": steps, "digest": res["digest"], "violation": vio}, fd)
    return 0


def replay_file(prop, path):
    mod = load_check(prop)
    with open(path) as fd:
        doc = json.load(fd)
    mode = doc["plan"].get("_mode", "O0")
    want_opt = mode == "O1"
    if want_opt != (sys.flags.optimize > 0):
        cmd = [PY] + (["-O"] if want_opt else []) + [os.path.join(VERIF, "check"), prop, "--replay", path]
        return subprocess.call(cmd)
    res = run_one(mod, doc["plan"])
    if res.get("harness_error"):
        print("HARNESS_ERROR during replay:\n" + res["harness_error"])
        return 2
    keys = [v["key"] for v in res["violations"]]
    print("replay %s: violations=%s digest=%s (recorded: key=%s digest=%s)" % (
        path, keys, res.get("digest"), doc["violation"]["key"], doc.get("digest")))
    for v in res["violations"]:
        print("  " + v["class"] + ": " + v.get("detail", "")[:2000])
    if doc["violation"]["key"] in keys:
        same = res.get("digest") == doc.get("digest")
        print("REPRODUCED key=%s digest_match=%s" % (doc["violation"]["key"], same))
        print("VIOLATION property=%s replay=%s" % (prop, path))
        return 1
    print("NOT REPRODUCED")
    return 0


def sweep_stale_scratch():
    """remove scratch trees left behind by processes that no longer exist"""
    import re
    import shutil
    base = os.environ.get("VERIF_SCRATCH", "/dev/shm")
    try:
        names = os.listdir(base)
    except OSError:
        return
    for n in names:
        m = re.match(r"verif-(?:part-|pyc-)?0*(\d+)-", n)
        if not m:
            continue
        try:
            os.kill(int(m.group(1)), 0)
        except ProcessLookupError:
            p = os.path.join(base, n)
            shutil.rmtree(p, ignore_errors=True) if os.path.isdir(p) else os.unlink(p)
        except OSError:
            pass


def main(prop, tier, seed, workers=None, runs_override=None):
    sweep_stale_scratch()
    mod = load_check(prop)
    t0 = time.time()
    cfg = dict(mod.TIERS[tier])
    if runs_override:
        cfg["runs"] = runs_override
    workers = workers or min(16, os.cpu_count() or 4)
    modes = list(getattr(mod, "MODES", ["O0"]))
    per_mode = max(1, cfg["runs"] // len(modes))
    if modes == ["O0"] and sys.flags.optimize == 0:
        parts = [engine(prop, seed, tier, "O0", cfg["runs"], cfg["wall"], workers)]
    else:
        # one engine process per interpreter mode, run concurrently
        procs = []
        w = max(1, workers // len(modes))
        for mi, mode in enumerate(modes):
            out = os.path.join(os.environ.get("VERIF_SCRATCH", "/dev/shm"),
                               "verif-part-%d-%s-%s.json" % (os.getpid(), prop, mode))
            cmd = [PY] + (["-O"] if mode == "O1" else []) + [
                os.path.join(VERIF, "check"), prop, "--engine", mode, "--tier", tier, "--seed", str(seed),
                "--runs", str(per_mode), "--first", str(mi * per_mode), "--workers", str(w), "--out", out,
                "--wall", str(cfg["wall"])]
            procs.append((mode, out, subprocess.Popen(cmd)))
        parts = []
        for mode, out, p in procs:
            rc = p.wait()
            if rc != 0 or not os.path.exists(out):
                parts.append({"runs": 0, "evals": 0, "events": 0, "stats": {}, "traces": [], "violations": [],
                              "harness_errors": ["engine for mode %s exited %s" % (mode, rc)], "samples": [],
                              "mode": mode, "wall_hit": False, "wall_s": 0})
            else:
                with open(out) as fd:
                    parts.append(json.load(fd))
                os.unlink(out)
    return finish(mod, prop, tier, seed, parts, t0, workers)


def finish(mod, prop, tier, seed, parts, t0, workers):
    stats = collections.Counter()
    traces = set()
    runs = evals = events = 0
    violations, herrs, samples = [], [], []
    modes = {}
    for p in parts:
        stats.update(p["stats"])
        traces.update(p["traces"])
        runs += p["runs"]
        evals += p["evals"]
        events += p["events"]
        violations += p["violations"]
        herrs += p["harness_errors"]
        samples += p["samples"]
        modes[p["mode"]] = p["runs"]
    known = [k for k in load_known() if k["property"] == prop]
    known_active = {k["key"]: k for k in known if k.get("status") == "known"}
    # group violations by key; shrink one representative per key
    by_key = collections.OrderedDict()
    for v in sorted(violations, key=lambda v: v["run"]):
        by_key.setdefault(v["violation"]["key"], []).append(v)
    reported = []
    known_hit = []
    exit_code = 0
    replay_dir = os.environ.get("VERIF_REPLAY_DIR") or os.path.join(VERIF, "replays")
    os.makedirs(replay_dir, exist_ok=True)
    for key, lst in by_key.items():
        if key in known_active:
            known_hit.append(key)
            print("KNOWN-FINDING: property=%s %s (%d runs, e.g. run %d) – %s" % (
                prop, key, len(lst), lst[0]["run"], known_active[key].get("what", "")))
            continue
        first = lst[0]
        budget = (90 if tier == "quick" else 300) if len(reported) < 6 else 0      # later keys: recorded unshrunk
        if os.environ.get("VERIF_NO_SHRINK"):
            budget = 0
        plan, steps, res, vio = shrink_and_run(mod, prop, first["plan"], first["violation"], budget)
        path = os.path.join(replay_dir, "%s-%s-%s-%s.json" % (
            prop, seed, first["run"], hashlib.sha1(key.encode()).hexdigest()[:8]))
        with open(path, "w") as fd:
            json.dump({"property": prop, "seed": seed, "run": first["run"], "tier": tier, "violation": vio,
                       "digest": res.get("digest"), "shrink_steps": steps, "plan": plan,
                       "replay_cmd": "./check %s --replay %s" % (prop, path)}, fd, indent=1, sort_keys=True)
        print("violation class=%s key=%s runs=%d first_run=%d" % (vio["class"], key, len(lst), first["run"]))
        print("  detail: " + str(vio.get("detail", ""))[:1500].replace("\n", "\n    "))
        print("VIOLATION property=%s replay=%s" % (prop, path))
        reported.append(key)
        exit_code = 1
    wall = time.time() - t0
    rule = mod.RULE
    ev = {
        "property_id": prop, "tier": tier, "seed": seed, "level": mod.LEVEL,
        "coverage": {
            "evaluations": evals,
            "distinct_nontrivial": len(traces),
            "rule": rule,
            "samples": samples[:3] if samples else [{"note": "no sample recorded"}],
            "exhaustive": False,
            "plans": runs,
            "runs_per_hour": int(runs / wall * 3600) if wall > 0 else 0,
            "executions_per_hour": int(evals / wall * 3600) if wall > 0 else 0,
            "sim_events_total": events,
            "sim_time_note": "the repository reads no clock; simulated time is reported as the number of "
                             "simulator events (I/O events, directory listings, plugin calls)",
            "workers": workers,
            "optimize_levels": modes,
            "counters": {k: v for k, v in sorted(stats.items())},
            "components": mod.COMPONENTS,
            "known_findings_matched": known_hit,
            "wall_cap_hit": any(p.get("wall_hit") for p in parts),
        },
        "assumptions": list(mod.ASSUMPTIONS),
        "wall_s": round(wall, 2),
        "violations": len(reported),
    }
    extra = getattr(mod, "evidence_extra", None)
    if extra:
        ev["coverage"].update(extra(stats, tier))
    zero = [k for k in getattr(mod, "PROBES", []) if not stats.get(k)]
    ev["coverage"]["probes_at_zero"] = zero
    if zero and tier == "thorough":
        print("warning: probes never hit: %s" % zero)
    # (the self-tests that run checks against patched copies of the repository redirect their evidence)
    evidence_dir = os.environ.get("VERIF_EVIDENCE_DIR") or os.path.join(VERIF, "evidence")
    os.makedirs(evidence_dir, exist_ok=True)
    with open(os.path.join(evidence_dir, prop + ".json"), "w") as fd:
        json.dump(ev, fd, indent=1, sort_keys=True)
    if herrs:
        print("HARNESS_ERROR (%d) – not a verdict about the property:" % len(herrs))
        for h in herrs[:5]:
            print(h[:3000])
        return 2 if exit_code == 0 else exit_code
    print("%s %s seed=%s: plans=%d executions=%d events=%d distinct_traces=%d violations=%d known=%d wall=%.1fs" % (
        prop, tier, seed, runs, evals, events, len(traces), len(reported), len(known_hit), wall))
    return exit_code
