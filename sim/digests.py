"""print {run: [digest, violation keys]} for a range of runs – used by the determinism self-test"""
import concurrent.futures as cf
import json
import multiprocessing
import sys

from sim import engine


def one(args):
    prop, seed, tier, run, mode = args
    mod = engine.load_check(prop)
    plan = engine.plan_for(mod, seed, tier, run)
    plan["_mode"] = mode
    res = engine.run_one(mod, plan)
    return run, [res.get("digest"), sorted(v["key"] for v in res["violations"]), bool(res.get("harness_error")),
                 res["evals"], res["events"], sorted(res["traces"])[:3]]


def main():
    prop, seed, first, n, workers = sys.argv[1], int(sys.argv[2]), int(sys.argv[3]), int(sys.argv[4]), int(sys.argv[5])
    mode = "O1" if sys.flags.optimize else "O0"
    tasks = [(prop, seed, "quick", r, mode) for r in range(first, first + n)]
    out = {}
    if workers <= 1:
        for t in tasks:
            r, v = one(t)
            out[r] = v
    else:
        with cf.ProcessPoolExecutor(max_workers=workers, mp_context=multiprocessing.get_context("fork")) as ex:
            for r, v in ex.map(one, tasks, chunksize=4):
                out[r] = v
    json.dump(out, sys.stdout, sort_keys=True)


if __name__ == "__main__":
    main()
