"""
C09 — unreadable files in a PEL directory never disturb the output for the
others.

Simulation: a base directory B of well-formed PELs and a junk set J produced
by storage-at-rest faults applied to *copies of PELs of the same plan* (torn
write, lost write, bit rot, garbage, foreign file) plus stray subdirectories.
Every directory mode is executed on B and on B ∪ J under seeded readdir
orders.  Oracle: exit 0, stdout one well-formed JSON document (or delimited
hex dumps), no traceback – whatever the directory contains; and for junk the
mode cannot decode (decided by running the mode on the junk alone), parsed
stdout(B ∪ J) == parsed stdout(B) including order.
"""
import hashlib
import json

from sim import pelgen
from sim.world import World
from checks import common

PROPERTY = "C09"
LEVEL = "exploration"
MODES = ["O0", "O1"]      # junk handling must not depend on assert statements either
TIERS = {"quick": {"runs": 1600, "wall": 55}, "thorough": {"runs": 25000, "wall": 1500}}
RULE = ("plan = base directory (1..7 well-formed PELs) + 1..4 junk items (torn/lost/flip/garbage/foreign copies "
        "of the plan's own PELs, biased into headers, length fields and the callout area) + 0..2 subdirectories "
        "+ in 6% of the plans a crowd of 25..40 (sometimes 300 or 3500) files cut inside the headers + option set; every directory mode (-l -a -n --plid --src --src-exclude -j, with -x/-r variants) runs "
        "on B, on B+J and on each junk item alone, each with a seeded readdir order.  distinct_nontrivial "
        "counts distinct abstract traces (mode, junk kinds present, junk classification per mode, number of "
        "base PELs reported) among mode executions with at least one junk item present.")
COMPONENTS = {"real": ["pel.peltool.peltool.main() in-process, all decoders"],
              "stub": ["stored-file damage applied at rest", "directory enumeration order (SimFS)", "stdout/stderr capture"]}
ASSUMPTIONS = ["a damaged copy that a mode still decodes is legitimately reported and is excluded from the equality relation for that mode (it still must not break well-formedness of stdout)",
               "stdout of --json is not required to be JSON (its product is files); the set and bytes of output files are compared instead",
               "half of the plans run in `python -O` interpreters"]
PROBES = ["junk_crowd", "leftover_output_file", "class_search_junk", "junk_other_creator", "junk:torn", "junk:flip", "junk:lost", "junk:garbage", "junk:foreign", "subdir", "junk_still_decodable",
          "junk_shares_eid", "mode:-j", "mode:--src-exclude", "hex"]

DIR_MODES = ["-l", "-a", "-n", "--plid", "--src", "--src-exclude", "-j"]


def gen_plan(rng, tier, run):
    n = rng.randint(1, 7)
    files = common.gen_store(rng, n, refpool=common.REFCODE_POOL if rng.random() < 0.5 else None, max_sections=5,
                             ext=rng.choice([None, None, [".pel", ""]]))
    junk = []
    for i in range(rng.randint(1, 4)):
        src = rng.choice(files)
        rec = src["recipe"]
        if rng.random() < 0.3:
            # a damaged log of ANOTHER creator that shares ids / component ids with a healthy PEL: its headers are
            # decoded before the file is rejected
            rec = json.loads(json.dumps(rec))
            rec["creator"] = rng.choice([c for c in "HOBM" if c != rec["creator"]])
            data = pelgen.build(rec)
            j = {"kind": "torn", "off": rng.choice([48, 49, 56, 60, 71, 72, 73, 80])} if rng.random() < 0.7 else \
                common.gen_junk(rng, data, pelgen.section_offsets(rec), kinds=["torn", "flip"], fields=pelgen.field_offsets(rec))
            if j["kind"] == "torn":
                j["off"] = min(j["off"], len(data) - 1)
            j["variant"] = "creator"
        else:
            data = pelgen.build(rec)
            j = common.gen_junk(rng, data, pelgen.section_offsets(rec), fields=pelgen.field_offsets(rec))
        junk.append({"name": rng.choice(([src["name"].rsplit(".", 1)[0]] * 3 if "." in src["name"][1:] else []) +     # a dot-prefix of a healthy PEL's name
                                        [src["name"] + ".part", "0" + src["name"], src["name"] + "~", "zz%d" % i, "A%d.pel" % i,
                                         "disk_100%%_full_%d.pel" % i, "pel%%20copy%d" % i, "a{b}%d.pel" % i, "x y %d" % i,
                                         "na\u00efve%d.pel" % i, "5a%d" % i, "1x%d" % i, "%da" % (10 + i), "%%s%%d%d" % i, "quote'\"%d" % i]),
                     "recipe": rec, "junk": j})
    names = set(f["name"] for f in files)
    junk = [j for j in junk if j["name"] not in names and not names.add(j["name"])]
    subdirs = []
    for d in rng.sample(["archive", "tmp.pel", "0000"], rng.randint(0, 2)):
        inner = [{"name": common.bmc_name(f["recipe"]), "recipe": f["recipe"]} for f in rng.sample(files, min(len(files), rng.randint(0, 2)))]
        subdirs.append({"name": d, "files": inner})
    some = rng.choice(files)["recipe"]
    ps = [s for s in some["sections"] if s["kind"] == "src" and s["id"] == "PS"]
    plan = {"files": files, "junk": junk, "subdirs": subdirs,
            # process model: every invocation in a fresh module set (= its own process) or all in one process
            # how paths are spelled on the command line: absolute, relative to the cwd, with a trailing slash
            "path_style": rng.choice(["abs", "abs", "abs", "rel", "slash"]),
            "fresh": rng.random() < 0.5,
            "opts": common.gen_selection(rng),
            "flags": [x for x in ("-r", "-P") if rng.random() < 0.2],
            "ext": ".pel" if rng.random() < 0.15 else None,
            "hex": rng.random() < 0.25,
            "leftover": rng.randrange(1, 1 << 16) if rng.random() < 0.3 else 0,
            # a crowd of undecodable files (a typo'd -p, a directory shared with other data): cut inside the headers,
            # so junk by construction; sorts before or after the healthy PELs
            "crowd": {"n": rng.choice([rng.randint(25, 40)] * 5 + [300, 3500]), "off": rng.choice([1, 8, 20, 47]), "prefix": rng.choice(["00", "00", "zz"])}
            if rng.random() < 0.06 else None,
            "class_search": rng.randrange(1, 1 << 16) if rng.random() < 0.3 else 0,
            "stdout_encoding": rng.choice(["utf-8", "utf-8", "utf-8", "ascii", "latin-1"]),
            "plid": "%08X" % some["plid"],
            "src": ps[0]["ascii"].strip()[:rng.choice([2, 4, 8])] if ps else "BD",
            "exclude": rng.sample(common.REFCODE_POOL, 4),
            "orders": {m: {"policy": rng.choice(["perm", "perm", "asc", "desc"]), "key": rng.randrange(1 << 30)} for m in DIR_MODES},
            "modes": DIR_MODES if tier == "thorough" or rng.random() < 0.4 else rng.sample(DIR_MODES, 3)}
    return plan


def argv_of(plan, mode, d, hexmode=False):
    a = ["-p", "@/" + d]
    if mode in ("-l", "-a", "-n"):
        a += [mode]
    elif mode == "--plid":
        a += [mode, plan["plid"]]
    elif mode == "--src":
        a += [mode, plan["src"]]
    elif mode == "--src-exclude":
        a += [mode, "@/X/exclude.txt"]
    elif mode == "-j":
        a += ["-j", "-o", "@/OUT-" + d]
    if hexmode and mode != "-j":
        a += ["-x"]
    if plan["ext"]:
        a += ["-e", plan["ext"]]
    return a + plan["opts"] + plan["flags"]


def V(cls, detail):
    return {"class": cls, "key": "C09:" + cls, "detail": detail}


def outputs(w, d):
    snap = w.snapshot()
    pre = "OUT-" + d + "/"
    return {p[len(pre):]: w.read(p) for p in snap if p.startswith(pre) and snap[p][0] == "f"}


def reported_nothing(mode, r, outs, hexmode):
    """did `mode`, run on a directory holding only the junk item, report no PEL?"""
    if mode == "-j":
        return not outs
    if hexmode and mode != "-n":
        return "PEL Begin" not in r.stdout
    ok, j = common.parse_json_stream(r.stdout)
    if not ok:
        return False
    if mode == "-n":
        return isinstance(j, dict) and j.get("Number of PELs found") == 0
    return j in ({}, [])


def execute(plan):
    stats = {}
    traces = set()

    def bump(k, n=1):
        stats[k] = stats.get(k, 0) + n
    vio = []
    events = evals = 0
    h = hashlib.sha256()
    base_eids = {f["recipe"]["eid"] for f in plan["files"]}
    for j in plan["junk"]:
        bump("junk:" + j["junk"]["kind"])
        if j["junk"].get("variant"):
            bump("junk_other_creator")
        if j["recipe"]["eid"] in base_eids:
            bump("junk_shares_eid")
    if plan["subdirs"]:
        bump("subdir")
    with World() as w:
        w.long_opts = bool(plan.get("long_opts"))
        w.fresh_per_run = bool(plan.get("fresh"))
        w.path_style = plan.get("path_style", "abs")
        w.rel_dot = bool(plan.get("fresh"))
        if w.path_style != "abs":
            bump("path_style:" + w.path_style)
        bump("process_model:fresh" if w.fresh_per_run else "process_model:shared")
        common.put_store(w, "B", plan["files"])
        w.put("X/exclude.txt", "\n".join(plan["exclude"]).encode())
        if plan.get("class_search"):
            # failure-class directed junk: corrupt every size/length/count/flag/id field of one base PEL with a few
            # values, decode each candidate once with the real parsePEL and keep one representative of each RARE
            # failure class (exception type) as an additional junk file.  Deterministic function of plan + code.
            extra = class_search_junk(w, plan)
            plan["junk"] = plan["junk"] + extra
            bump("class_search_junk", len(extra))
            for e in extra:
                bump("class_search_class:" + e["junk"]["cls"])
        for i, j in enumerate(plan["junk"]):
            common.put_store(w, "J%d" % i, [j])
        for mode in plan["modes"]:
            hexmode = plan["hex"] and mode in ("-l", "-a", "--plid", "--src", "--src-exclude")
            bump("mode:" + mode)
            if hexmode:
                bump("hex")
            order = plan["orders"][mode]
            # --- classification of each junk item for this mode
            qualifies = []
            for i, j in enumerate(plan["junk"]):
                w.mkdir("OUT-J%d" % i)
                r = w.run(argv_of(plan, mode, "J%d" % i, hexmode), order=order, stdout_encoding=plan.get("stdout_encoding", "utf-8"))
                evals += 1
                events += len(r.events)
                q = reported_nothing(mode, r, outputs(w, "J%d" % i), hexmode) and r.exit == 0 and not r.exc
                if hexmode and not q:
                    # --hex only changes the presentation: a file the mode cannot decode without -x is junk for it
                    # with -x too (otherwise a hex path that dumps without decoding would vouch for itself)
                    r2 = w.run(argv_of(plan, mode, "J%d" % i, False), order=order, stdout_encoding=plan.get("stdout_encoding", "utf-8"))
                    evals += 1
                    if reported_nothing(mode, r2, {}, False) and r2.exit == 0 and not r2.exc:
                        q = True
                        bump("junk_qualified_by_non_hex_variant")
                if plan["ext"] and not common.ext_matches(j["name"], plan["ext"]):
                    q = True
                if common.headers_damaged_by_construction(pelgen.build(j["recipe"]), j["junk"]):
                    # independent of what the tool makes of it: without two intact headers no mode can decode it
                    if not q:
                        bump("junk_reported_despite_damaged_headers")
                    q = True
                qualifies.append(q)
                if not q:
                    bump("junk_still_decodable")
            # --- the three directories: B, B+all junk, B+qualifying junk
            runs = {}
            for tag, items in (("B", []), ("ALL", plan["junk"]),
                               ("Q", [j for j, q in zip(plan["junk"], qualifies) if q])):
                if tag == "Q" and len(items) == len(plan["junk"]):
                    runs["Q"] = runs["ALL"]
                    continue
                d = tag
                import shutil, os
                for p in (w.path(d), w.path("OUT-" + d)):
                    if os.path.lexists(p):
                        shutil.rmtree(p)
                common.put_store(w, d, plan["files"] + items)
                w.mkdir("OUT-" + d)
                if mode == "-j" and tag != "B" and plan.get("leftover") and "B" in runs:
                    # junk in the OUTPUT directory: an empty / half-written file left by an interrupted earlier run,
                    # named exactly like a healthy PEL's output
                    names = sorted(runs["B"][1])
                    if names:
                        nm = names[plan["leftover"] % len(names)]
                        w.put("OUT-%s/%s" % (d, nm), [b"", b"{\n    \"Private Header\": {", b"\x00\x00\x00"][plan["leftover"] % 3])
                        bump("leftover_output_file")
                if tag != "B" and plan.get("crowd"):
                    cr = plan["crowd"]
                    cdata = pelgen.build(plan["files"][0]["recipe"])[:cr["off"]]
                    for ci in range(cr["n"]):
                        w.put("%s/%scrowd%04d" % (d, cr["prefix"], ci), cdata)
                    if tag == "ALL":
                        bump("junk_crowd")
                if tag != "B":
                    for sd in plan["subdirs"]:
                        w.mkdir(d + "/" + sd["name"])
                        common.put_store(w, d + "/" + sd["name"], sd["files"])
                r = w.run(argv_of(plan, mode, d, hexmode), order=order, stdout_encoding=plan.get("stdout_encoding", "utf-8"))
                evals += 1
                events += len(r.events)
                h.update(r.digest.encode())
                h.update(r.stdout.encode())
                runs[tag] = (r, outputs(w, d))
            rb, ob = runs["B"]
            ctxj = "junk=%s subdirs=%s crowd=%s" % ([(j["name"], j["junk"]) for j in plan["junk"]], [s["name"] for s in plan["subdirs"]], plan.get("crowd"))
            # (1)(2)(4) on everything
            for tag in ("B", "ALL", "Q"):
                r, o = runs[tag]
                ctx = "mode %s on %s; argv=%s; %s" % (mode, tag, r.argv, ctxj if tag != "B" else "no junk")
                if r.exc:
                    vio.append(V("uncaught-exception", "%s: %s" % (ctx, r.exc)))
                    continue
                if r.exit != 0:
                    vio.append(V("exit-status", "%s: exit status %r; stderr=%s" % (ctx, r.exit, r.stderr[-300:])))
                if "Traceback (most recent call last)" in r.stderr:
                    vio.append(V("traceback", "%s: stderr has a traceback: %s" % (ctx, r.stderr[-400:])))
                if mode == "-j":
                    continue
                if hexmode:
                    blocks = common.split_hex_blocks(r.stdout)
                    if blocks is None or any(b is None for b in blocks):
                        vio.append(V("stdout-not-hex-blocks", "%s: stdout=%r" % (ctx, r.stdout[:300])))
                else:
                    ok, _ = common.parse_json_stream(r.stdout)
                    if not ok:
                        vio.append(V("stdout-not-json" + ("" if tag != "B" else "-without-junk"),
                                     "%s: stdout is not one JSON document: ...%r" % (ctx, _excerpt(r.stdout))))
            if vio:
                break
            # (3) equality with qualifying junk only
            rq, oq = runs["Q"]
            kinds = sorted(j["junk"]["kind"] for j, q in zip(plan["junk"], qualifies) if q)
            if mode == "-j":
                if ob != oq:
                    diff = sorted(set(ob) ^ set(oq)) or [k for k in ob if ob[k] != oq.get(k)]
                    vio.append(V("json-outputs-differ", "mode -j: output files differ between B and B+junk: %s; %s" % (diff[:5], ctxj)))
                nrep = len(ob)
            elif hexmode:
                if common.split_hex_blocks(rb.stdout) != common.split_hex_blocks(rq.stdout):
                    vio.append(V("hex-output-differs", "mode %s -x: dumps differ between B and B+junk; %s" % (mode, ctxj)))
                nrep = len(common.split_hex_blocks(rb.stdout))
            else:
                jb = json.loads(rb.stdout)
                jq = json.loads(rq.stdout)
                same = json.dumps(jb) == json.dumps(jq)     # order-sensitive
                if not same:
                    vio.append(V("output-differs", "mode %s: stdout for B+junk differs from B: B=%s B+J=%s; argv=%s; qualifying %s" % (
                        mode, _brief(jb), _brief(jq), rq.argv, ctxj)))
                nrep = len(jb) if not isinstance(jb, dict) or "Number of PELs found" not in jb else jb["Number of PELs found"]
            traces.add("%s|x%d|%s|dec%d|sub%d|rep%d" % (mode, hexmode, ",".join(kinds), qualifies.count(False),
                                                       len(plan["subdirs"]), min(nrep, 3)))
            if vio:
                break
    seen, uniq = set(), []
    for v in vio:
        if v["key"] not in seen:
            seen.add(v["key"])
            uniq.append(v)
    sample = {"base": [f["name"] for f in plan["files"]], "junk": [[j["name"], j["junk"]] for j in plan["junk"]],
              "subdirs": [s["name"] for s in plan["subdirs"]], "modes": plan["modes"], "opts": plan["opts"] + plan["flags"]}
    return {"violations": uniq, "stats": stats, "traces": sorted(traces), "events": events, "evals": evals,
            "digest": h.hexdigest(), "sample": sample}


def class_search_junk(w, plan):
    import io, sys as _sys
    Config = _sys.modules["pel.peltool.config"].Config
    DataStream = _sys.modules["pel.datastream"].DataStream
    src = plan["files"][plan["class_search"] % len(plan["files"])]
    data = pelgen.build(src["recipe"])
    seen = {}
    saved = (_sys.stdout, _sys.stderr)
    _sys.stdout, _sys.stderr = io.StringIO(), io.StringIO()
    try:
        for off, width, name in pelgen.field_offsets(src["recipe"]):
            for o in range(off, off + width):
                cur = data[o]
                for val in sorted({0, 1, 23, 0xFF, (cur - 1) & 0xFF, (cur + 1) & 0xFF} - {cur}):
                    bad = bytearray(data)
                    bad[o] = val
                    cfg = Config()
                    cfg.every_pel = True
                    try:
                        w.peltool.parsePEL(DataStream(bytes(bad), byte_order="big", is_signed=False), cfg, False)
                        cls = "decodes"
                    except Exception as e:
                        cls = type(e).__name__
                    except BaseException as e:      # noqa
                        cls = "base:" + type(e).__name__
                    seen.setdefault(cls, []).append({"kind": "flip", "off": o, "val": val, "field": name, "cls": cls})
    finally:
        _sys.stdout, _sys.stderr = saved
    common_classes = ("decodes", "AssertionError", "UnicodeDecodeError")
    out = []
    for cls in sorted(seen, key=lambda c: (len(seen[c]), c)):
        if cls in common_classes or len(out) >= 3:
            continue
        j = seen[cls][plan["class_search"] % len(seen[cls])]
        out.append({"name": "cs-%s-%d" % (cls[:12], len(out)), "recipe": src["recipe"], "junk": j})
    return out


def _excerpt(s):
    # show the neighbourhood of the first place where the JSON breaks
    try:
        json.loads(s)
    except ValueError as e:
        pos = getattr(e, "pos", 0)
        return s[max(0, pos - 80):pos + 80]
    return s[:160]


def _brief(j):
    if isinstance(j, dict):
        return list(j.keys())[:12]
    if isinstance(j, list):
        return [d.get("Private Header", {}).get("Entry Id") if isinstance(d, dict) else d for d in j][:12]
    return j


def shrink_candidates(plan, violation):
    P = lambda: json.loads(json.dumps(plan))
    if len(plan["modes"]) > 1:
        for m in plan["modes"]:
            c = P()
            c["modes"] = [m]
            yield c
    if plan.get("crowd"):
        c = P()
        c["crowd"] = None
        yield c
    for k in ("junk", "subdirs", "files"):
        for i in range(len(plan[k]) - 1, -1, -1):
            if k == "files" and len(plan["files"]) == 1:
                continue
            c = P()
            del c[k][i]
            yield c
    for k in ("files", "junk"):
        for i, f in enumerate(plan[k]):
            secs = f["recipe"]["sections"]
            for j in range(len(secs) - 1, -1, -1):
                c = P()
                del c[k][i]["recipe"]["sections"][j]
                # the same recipe may be shared between a base file and its junk copy: keep them in sync
                for kk in ("files", "junk"):
                    for g in c[kk]:
                        if g["recipe"]["eid"] == f["recipe"]["eid"] and g is not c[k][i] and len(g["recipe"]["sections"]) == len(secs):
                            del g["recipe"]["sections"][j]
                ok = True
                for g in c["junk"]:
                    if g["junk"]["kind"] in ("torn", "flip") and g["junk"]["off"] >= len(pelgen.build(g["recipe"])):
                        ok = False
                if ok:
                    yield c
    for k in ("hex",):
        if plan[k]:
            c = P()
            c[k] = False
            yield c
    if plan["opts"]:
        c = P()
        c["opts"] = ["-E"]
        yield c
    if plan["flags"]:
        c = P()
        c["flags"] = []
        yield c
    for m, o in plan["orders"].items():
        if o["policy"] != "asc" and m in plan["modes"]:
            c = P()
            c["orders"][m] = {"policy": "asc", "key": 0}
            yield c
