"""
C19 — decoding a PEL gives the same result whatever was decoded before it.

Simulation: the *process history* is the schedule.  One long-lived module set
L executes a seeded history of decode operations (well-formed and damaged
PELs, healthy / raising / None-returning / ImportError-raising / absent
plugins, -P on and off, with and without a message registry, directory modes
in both orders).  After every operation the same single operation is executed
in a pristine module set F (fresh purge + import, same environment) and the
results must be identical.  Plugin behaviour is a pure function of its
arguments, so any difference is the tool's own state.
"""
import hashlib
import io
import json
import os
import random
import subprocess
import sys

from sim import pelgen, world
from sim.world import World
from checks import common, plug

PROPERTY = "C19"
LEVEL = "exploration"
MODES = ["O0"]
TIERS = {"quick": {"runs": 1000, "wall": 55}, "thorough": {"runs": 16000, "wall": 1500}}
RULE = ("plan = 2..6 PELs (some damaged) + plugin population with per-call fault tables + optional registry + history "
        "of 3..20 decode operations (-f, -a, -l, --bmc-id, parsePEL; -P/-r/-x variants); every operation is compared "
        "with the same operation in a pristine module set; afterwards -a in both orders must show, as a multiset, the documents "
        "-f shows per file (10% of the plans hold two logs with the same entry id).  distinct_nontrivial counts distinct abstract histories "
        "(sequence of (operation kind, target class, plugin behaviours fired)) of length >= 3.")
COMPONENTS = {"real": ["pel.peltool.peltool.main() / parsePEL in-process, all module-level caches (userDataParsers, srcParsers, "
                       "calloutParsers, osrcParsers, componentIDs, registry)", "real subprocess interpreter for a sample of plans"],
              "stub": ["third-party parser modules (fake, pure functions of their arguments)", "pel_registry (fake)",
                       "the 'fresh process': purge + re-import of the module set inside the same interpreter",
                       "clock / interval timer (virtual: signal.alarm and setitimer interposed, slow-storage ticks per I/O event)"]}
ASSUMPTIONS = ["a pristine module set (purge + import) is a faithful stand-in for a fresh interpreter; validated against real subprocesses on plans without fake plugins",
               "stderr is compared only for absence of tracebacks (the one-shot 'Failed to find PEL creators components config file' line is legitimately history dependent and not part of the document)"]
PROBES = ["slow_storage", "timer_armed", "timer_fired", "undecodable_builtin_section", "op:f", "op:a", "op:l", "op:bmc", "op:pp", "op:j", "damaged_before_good", "fault_before_same_module", "skip_then_enable",
          "registry", "subprocess_crosschecks", "repeat_same_pel"]


def gen_plan(rng, tier, run):
    pels, plugins = plug.gen_world(rng, npels=rng.randint(2, 6), fault_rate=rng.choice([0, 1, 2, 3]))
    for p in pels:
        if rng.random() < 0.5:
            # not only serviceable logs: informational / hidden / non-serviceable ones react to selection options
            p["recipe"]["uh"]["severity"], p["recipe"]["uh"]["action"] = pelgen.gen_class(rng)
    for spec in plugins.values():
        # the environment must be stateless here (any difference has to be the tool's own state): no transient
        # import failures, which make the plugin host itself history dependent
        spec.pop("transient", None)
    if rng.random() < 0.2:
        # a BMC text / JSON section that ends in the middle of a multi-byte character (a log cut at a size limit):
        # that PEL fails to decode; the others must not notice
        victim = rng.choice(pels)
        victim["recipe"]["creator"] = "O"
        victim["recipe"]["sections"] = [x for x in victim["recipe"]["sections"] if x["kind"] == "src"][:1] + [
            {"kind": "ud", "id": "UD", "ver": 1, "subtype": rng.choice([1, 3]), "comp": 0x2000,
             "payload": (b"temperature 21" + rng.choice([b"\xe2\x84", b"\xc2", b"\xf0\x9f\x98"])).hex(), "badjson": True}]
        victim["damaged"] = True
    if len(pels) >= 2 and rng.random() < 0.08:
        # two logs whose BMC JSON sections (one User Data, one Extended User Data) hold an integer of more than 4300
        # digits - beyond the interpreter-wide int/str conversion limit: each fails to decode wherever it stands
        for p, kind in zip(rng.sample(pels, 2), ("ud", "ed")):
            if p.get("damaged"):
                continue
            sec = {"kind": kind, "id": kind.upper(), "ver": 1, "subtype": 1, "comp": 0x2000,
                   "payload": (b'{"count": ' + b"9" * rng.choice([4301, 5000, 9000]) + b"}").hex(), "badjson": True}
            if kind == "ed":
                sec["creator"] = "O"
            else:
                p["recipe"]["creator"] = "O"
            p["recipe"]["sections"] = [x for x in p["recipe"]["sections"] if x["kind"] == "src"][:1] + [sec]
            p["damaged"] = True
    for p in pels:
        if not p.get("damaged") and p["recipe"]["creator"] == "O" and rng.random() < 0.5:
            p["recipe"]["sections"].append(pelgen.gen_ud(rng, "O", [("O", 0x2000)]))
    if len(pels) >= 2 and rng.random() < 0.1:
        # two different logs carrying the same entry id (restored archives, logs of two systems in one directory)
        a, b = rng.sample(range(len(pels)), 2)
        pels[b]["recipe"]["eid"] = pels[a]["recipe"]["eid"]
    bare = rng.random() < 0.12
    if bare:
        plugins = {}
    for p in pels:
        if rng.random() < 0.25:
            data = pelgen.build(p["recipe"])
            p["junk"] = common.gen_junk(rng, data, pelgen.section_offsets(p["recipe"]), kinds=["torn", "flip", "flip"],
                                        fields=pelgen.field_offsets(p["recipe"]))
    ops = []
    for _ in range(rng.randint(3, 20)):
        k = rng.choice(["f", "f", "f", "f", "a", "l", "bmc", "pp", "pp", "j"])
        op = {"op": k, "flags": []}
        if rng.random() < 0.2:
            op["flags"].append("-P")
        if k in ("f", "bmc", "pp"):
            op["pel"] = rng.randrange(len(pels))
        if k in ("a", "l", "j"):
            if rng.random() < 0.5 and k != "j":
                op["flags"].append("-r")
            op["order"] = {"policy": rng.choice(["perm", "asc", "desc"]), "key": rng.randrange(1 << 30)}
        if k in ("f", "a", "bmc") and rng.random() < 0.1:
            op["flags"].append("-x")
        op["sel"] = rng.choice([["-E"], ["-E"], [], ["-H"], ["-S", "Informational"]]) if rng.random() < 0.5 else common.gen_selection(rng)
        ops.append(op)
    registry = common.gen_registry(rng, [p["recipe"] for p in pels]) if rng.random() < 0.4 else None
    return {"pels": pels, "plugins": plugins, "ops": ops, "registry": registry,
            # slow storage: virtual seconds that pass per I/O event (a timer armed by the code under test and not
            # disarmed is delivered once its deadline is reached - by a later decode of the same process)
            "tick": rng.choice([0, 0, 0, 0, 0.5, 6.0]),
            "subprocess": bare and registry is None and rng.random() < 0.6}


def argv_of(plan, op):
    k = op["op"]
    if k == "f":
        return ["-f", "@/D/" + plan["pels"][op["pel"]]["name"]] + op["sel"] + op["flags"]
    if k == "a":
        return ["-p", "@/D", "-a"] + op["sel"] + op["flags"]
    if k == "l":
        return ["-p", "@/D", "-l"] + op["sel"] + op["flags"]
    if k == "bmc":
        return ["-p", "@/D", "--bmc-id", str(plan["pels"][op["pel"]]["recipe"]["bmc_id"])] + op["flags"]
    if k == "j":
        return ["-p", "@/D", "-j", "-o", "@/OUT"] + op["sel"] + [f for f in op["flags"] if f != "-x"]
    return None


def V(cls, detail):
    return {"class": cls, "key": "C19:" + cls, "detail": detail}


def do_op(w, plan, op, datas, persist=False):
    """returns a comparable outcome dict"""
    k = op["op"]
    if k == "j":
        import shutil
        # in the long-lived history the output directory keeps what earlier --json operations wrote (disk state is
        # history too); the pristine twin converts into an empty directory
        outdir = "OUT" if persist else "OUTF"
        if not persist:
            shutil.rmtree(w.path(outdir), ignore_errors=True)
        w.mkdir(outdir)
        argv = [a.replace("@/OUT", "@/" + outdir) for a in argv_of(plan, op)]
        r = w.run(argv, order=op.get("order"))
        snap = w.snapshot()
        files = {p[len(outdir) + 1:]: w.read(p).decode("utf-8", "replace") for p in sorted(snap)
                 if p.startswith(outdir + "/") and snap[p][0] == "f"}
        if not persist:
            shutil.rmtree(w.path(outdir), ignore_errors=True)
        return {"stdout": json.dumps(files, sort_keys=True), "exit": r.exit, "exc": r.exc,
                "traceback": "Traceback (most recent call last)" in r.stderr, "stderr": r.stderr, "nevents": len(r.events)}
    if k != "pp":
        r = w.run(argv_of(plan, op), order=op.get("order"))
        return {"stdout": r.stdout, "exit": r.exit, "exc": r.exc, "traceback": "Traceback (most recent call last)" in r.stderr,
                "stderr": r.stderr, "nevents": len(r.events)}
    pt = w.peltool
    Config = sys.modules["pel.peltool.config"].Config
    DataStream = sys.modules["pel.datastream"].DataStream
    cfg = Config()
    cfg.every_pel = "-E" in op["sel"]
    cfg.allow_plugins = "-P" not in op["flags"]
    data = datas[plan["pels"][op["pel"]]["name"]]
    saved = (sys.stdout, sys.stderr)
    out, err = io.StringIO(), io.StringIO()
    sys.stdout, sys.stderr = out, err
    w.fs.active = True
    try:
        try:
            eid, js = pt.parsePEL(DataStream(data, byte_order="big", is_signed=False), cfg, False)
            res = {"stdout": js, "exit": eid, "exc": None}
        except Exception as e:
            res = {"stdout": "", "exit": None, "exc": type(e).__name__}
    finally:
        w.fs.active = False
        sys.stdout, sys.stderr = saved
    res.update({"traceback": False, "stderr": err.getvalue(), "nevents": 1, "printed": out.getvalue()})
    return res


def execute(plan):
    stats = {}

    def bump(k, n=1):
        stats[k] = stats.get(k, 0) + n
    vio = []
    events = 0
    h = hashlib.sha256()
    trace = []
    datas = {p["name"]: common.file_data(p) for p in plan["pels"]}
    if plan["registry"]:
        bump("registry")
    seen_pels = set()
    damaged_seen = False
    skipped_seen = False
    with World(plugins=plan["plugins"], registry=plan["registry"]) as w:
        w.long_opts = bool(plan.get("long_opts"))
        w.fs.tick = float(plan.get("tick") or 0)
        if w.fs.tick:
            bump("slow_storage")
        for p in plan["pels"]:
            w.put("D/" + p["name"], datas[p["name"]])
        host = w.host
        faulted = set()
        for i, op in enumerate(plan["ops"]):
            mark = len(host.calls)
            got = do_op(w, plan, op, datas, persist=True)
            calls = host.calls[mark:]
            want = w.in_pristine_modules(lambda: do_op(w, plan, op, datas))
            del host.calls[mark + len(calls):]
            events += got["nevents"] + len(calls)
            bump("op:" + op["op"])
            h.update(json.dumps([got["stdout"], str(got["exit"]), got["exc"]]).encode())
            beh = sorted(set(c[3] for c in calls if c[3] != "ok"))
            if any(c[0] in faulted for c in calls):
                bump("fault_before_same_module")
            faulted |= {c[0] for c in calls if c[3] != "ok"}
            tgt = ""
            if "pel" in op:
                p = plan["pels"][op["pel"]]
                tgt = "dmg" if (p.get("junk") or p.get("damaged")) else "ok"
                if p["name"] in seen_pels:
                    bump("repeat_same_pel")
                seen_pels.add(p["name"])
                if not (p.get("junk") or p.get("damaged")) and damaged_seen:
                    bump("damaged_before_good")
                damaged_seen = damaged_seen or bool(p.get("junk") or p.get("damaged"))
                if p.get("damaged"):
                    bump("undecodable_builtin_section")
            if "-P" in op["flags"]:
                skipped_seen = True
            elif skipped_seen:
                bump("skip_then_enable")
            trace.append("%s%s:%s:%s" % (op["op"], "P" if "-P" in op["flags"] else "", tgt, ",".join(beh)))
            ctx = "operation %d of the history %s" % (i, [argv_of(plan, o) or ["parsePEL", plan["pels"][o["pel"]]["name"]] + o["flags"] for o in plan["ops"][:i + 1]])
            if got["traceback"] or (got["exc"] and op["op"] != "pp"):
                # an escaping exception is C05/C09 territory unless it is history dependent
                if not (want["traceback"] or want["exc"]):
                    vio.append(V("history-dependent-failure", "%s fails only after the history: %s; %s" % (argv_of(plan, op), got["exc"] or got["stderr"][-300:], ctx)))
                continue
            if op["op"] == "j" and not got["exc"] and not want["exc"]:
                gf, wf = json.loads(got["stdout"]), json.loads(want["stdout"])
                # files left by earlier conversions of PELs this invocation does not select are not its business
                got = dict(got, stdout=json.dumps({k2: gf.get(k2) for k2 in wf}, sort_keys=True))
            if (got["stdout"], got["exit"], got["exc"]) != (want["stdout"], want["exit"], want["exc"]):
                a, b = got["stdout"] or "", want["stdout"] or ""
                pos = next((j for j in range(min(len(a), len(b))) if a[j] != b[j]), min(len(a), len(b)))
                earlier = [(c[0].split(".")[-1], c[3]) for c in host.calls[:mark] if c[3] != "ok"][-6:]
                vio.append(V("history-dependent-output",
                             "result differs from a pristine module set: exit/exc %r/%r vs %r/%r; first difference at offset %d: after-history ...%r... vs pristine ...%r...; misbehaving plugin calls earlier in the history: %s; %s" % (
                                 got["exit"], got["exc"], want["exit"], want["exc"], pos, a[max(0, pos - 120):pos + 120], b[max(0, pos - 120):pos + 120], earlier, ctx)))
                break
        # a directory listed in either order gives, per PEL, the document its own -f gives (same options)
        sels = [["-E"]] + [o["sel"] + [f for f in o["flags"] if f == "-P"] for o in plan["ops"] if o["op"] in ("a", "l", "f")][:2]
        for sel in sels:
            if vio:
                break
            # (compared as multisets of documents: two files may show the same entry id - a copy, a damaged copy, two
            # logs of different creators - and each still has to appear with its own document)
            per_file = []
            for p in plan["pels"]:
                rf = w.run(["-f", "@/D/" + p["name"]] + sel)
                okf, jf = common.parse_json_stream(rf.stdout) if rf.stdout else (False, None)
                if okf and isinstance(jf, dict):
                    try:
                        key = int(jf["Private Header"]["Entry Id"], 16)     # a damaged copy may show another id
                    except Exception:
                        continue
                    per_file.append((key, json.dumps(jf)))
            if len({k for k, _ in per_file}) != len(per_file):
                bump("relation_with_duplicate_ids")
            for extra in ([], ["-r"]):
                rd = w.run(["-p", "@/D", "-a"] + sel + extra)
                okd, jd = common.parse_json_stream(rd.stdout)
                bump("relation_all_vs_file")
                if not okd or not isinstance(jd, list):
                    vio.append(V("all-not-json", "%s: stdout is not a JSON array: %r" % (rd.argv, rd.stdout[:200])))
                    break
                got = []
                for d in jd:
                    try:
                        got.append((int(d["Private Header"]["Entry Id"], 16), json.dumps(d)))
                    except Exception:
                        pass
                if sorted(k for k, _ in got) != sorted(k for k, _ in per_file):
                    vio.append(V("all-vs-file-set-differs", "%s shows entry ids %s, but -f with the same options shows %s" % (
                        rd.argv, sorted("%08X" % e for e, _ in got), sorted("%08X" % e for e, _ in per_file))))
                    break
                if sorted(got) != sorted(per_file):
                    e = sorted(set(got) - set(per_file))[0][0]
                    vio.append(V("all-vs-file-differ", "%s: a document of %08X differs from its -f document" % (rd.argv, e)))
                    break
        ra = w.run(["-p", "@/D", "-a", "-E"])
        ok, ja = common.parse_json_stream(ra.stdout)
        if ok and isinstance(ja, list) and not vio:
            by = {}
            for d in ja:
                try:
                    by[int(d["Private Header"]["Entry Id"], 16)] = d
                except Exception:
                    pass
            for p in plan["pels"]:
                rf = w.run(["-f", "@/D/" + p["name"], "-E"])
                okf, jf = common.parse_json_stream(rf.stdout) if rf.stdout else (False, None)
                da = by.get(p["recipe"]["eid"])
                if p.get("junk") or sum(1 for q in plan["pels"] if q["recipe"]["eid"] == p["recipe"]["eid"]) > 1:
                    continue
                if okf and da is not None and jf != da:
                    diff = [k for k in jf if jf.get(k) != da.get(k)]
                    vio.append(V("all-vs-file-differ", "document of %s differs between -a and -f in sections %s" % (p["name"], diff)))
                    break
        # fidelity: pristine module set vs a real fresh interpreter
        if plan.get("subprocess") and not vio:
            env = dict(os.environ, PYTHONPATH=world.MODULES, PYTHONDONTWRITEBYTECODE="1", PYTHONWARNINGS="ignore")
            for op in [o for o in plan["ops"] if o["op"] in ("f", "a", "l")][:2]:
                argv = [a.replace("@/", w.root + "/") for a in argv_of(plan, op)]
                if op.get("order", {}).get("policy", "asc") != "asc" and False:
                    continue
                want = w.in_pristine_modules(lambda: do_op(w, plan, dict(op, order=None), datas))
                cp = subprocess.run([sys.executable, os.path.join(world.MODULES, "pel/peltool/peltool.py")] + argv,
                                    env=env, capture_output=True, text=True, timeout=120)
                bump("subprocess_crosschecks")
                if cp.stdout != want["stdout"] or cp.returncode != (want["exit"] if isinstance(want["exit"], int) else 1):
                    raise world.HarnessError("pristine module set disagrees with a real interpreter on %s: rc %s vs %s" % (argv, cp.returncode, want["exit"]))
    for k, v in w.fs.timer_stats.items():
        bump("timer_" + k, v)
    sample = {"pels": [(p["name"], "damaged" if p.get("junk") else "ok") for p in plan["pels"]],
              "plugins": {m: s.get("import", "ok") for m, s in plan["plugins"].items()},
              "history": [argv_of(plan, o) or ["parsePEL", plan["pels"][o["pel"]]["name"]] + o["flags"] for o in plan["ops"]], "trace": trace}
    return {"violations": vio[:1], "stats": stats, "traces": ["|".join(trace)] if len(trace) >= 3 else [], "events": events,
            "evals": len(plan["ops"]) * 2, "digest": h.hexdigest(), "sample": sample}


def shrink_candidates(plan, violation):
    P = lambda: json.loads(json.dumps(plan))
    for i in range(len(plan["ops"]) - 1, -1, -1):
        if len(plan["ops"]) > 1:
            c = P()
            del c["ops"][i]
            yield c
    for i in range(len(plan["pels"]) - 1, -1, -1):
        if len(plan["pels"]) > 1 and not any(o.get("pel") == i for o in plan["ops"]):
            c = P()
            del c["pels"][i]
            for o in c["ops"]:
                if "pel" in o and o["pel"] > i:
                    o["pel"] -= 1
            yield c
    for i, p in enumerate(plan["pels"]):
        if p.get("junk"):
            continue
        for j in range(len(p["recipe"]["sections"]) - 1, -1, -1):
            c = P()
            del c["pels"][i]["recipe"]["sections"][j]
            yield c
    for m in list(plan["plugins"]):
        c = P()
        del c["plugins"][m]
        yield c
    if plan["registry"]:
        c = P()
        c["registry"] = None
        yield c
    if plan.get("tick"):
        c = P()
        c["tick"] = 0
        yield c
    for i, o in enumerate(plan["ops"]):
        if o["flags"]:
            c = P()
            c["ops"][i]["flags"] = []
            yield c
