"""
Shared machinery for the plugin-seam checks (C18, C04, C19): seeded plugin
populations served by sim.world.PluginHost, expected-call computation from
the PEL recipes (by-construction facts), document/section analysis.
"""
import json
import os

from sim import pelgen, world
from sim.hexparse import recover
from checks import common

SHIPPED = {"udparsers.m2c00.m2c00", "udparsers.oe500.oe500", "srcparsers.osrc.osrc", "srcparsers.oe500.oe500",
           "calloutparsers.ocallouts.ocallouts"}
HEALTHY = {"ok": 1}


def ud_module(creator, comp):
    n = "%s%04x" % (creator.lower(), comp)
    return "udparsers.%s.%s" % (n, n)


def src_module(creator):
    n = creator.lower() + "src"
    return "srcparsers.%s.%s" % (n, n)


def osrc_sub(ascii32):
    if ascii32[:2] == "BC":
        return "srcparsers.bsrc.bsrc"
    n = "o" + ascii32[4:6].lower() + "00"
    return "srcparsers.%s.%s" % (n, n)


def callout_module(creator):
    n = creator.lower() + "callouts"
    return "calloutparsers.%s.%s" % (n, n)


# ---------------------------------------------------------------------------
def gen_world(rng, npels=None, fault_rate=None):
    """returns (pels: list of {name, recipe}, plugins: {module: spec})"""
    creators = rng.sample(["B", "H", "M", "T", "P", "S", "K", "L", "C", "Z", "Q", "O", "O", "O", "O"], rng.randint(2, 4))
    comps = [0xE500, 0x1000, 0x2C00, 0x0A0B, 0xABCD, 0x0100, 0x3100]
    targets = [(c, rng.choice(comps)) for c in creators for _ in range(rng.randint(1, 2))]
    if rng.random() < 0.5:
        targets += [("M", 0x2C00)] * 2           # shipped I/O drawer plugin (real code)
    if rng.random() < 0.25:
        targets.append(("O", 0xE500))            # shipped hw-diags plugin (real code)
    if rng.random() < 0.6:
        targets += [("O", 0x2000)] * 2           # BMC built-in formats (json / text / cbor / custom)
    npels = npels or rng.randint(2, 5)
    rcs = ["%04X" % rng.randrange(0x10000) for _ in range(2)]       # reason codes shared by the whole plan
    tfam = {v: common.trace_family(rng, v) for v in (1, 2)}          # one trace-hash family per drawer type and plan
    pels = []
    eids = set()
    for i in range(npels):
        c = rng.choice(creators)
        eid = pelgen.gen_id(rng, "typical")
        while eid in eids:
            eid = pelgen.gen_id(rng, "typical")
        eids.add(eid)
        # BMC reference codes of one plan share few component bytes, so that BD../11../BC.. codes of the same
        # component (different sub-dispatch targets) meet in one process
        pool = None
        if c == "O":
            # ... and few reason codes, so that the same reason code occurs under different SRC types
            pool = ["%s%s%s" % (h, cc, rng.choice(rcs)) for h in ("BD", "BC", "11", "BD") for cc in rng.sample(["8D", "20", "75", "E5"], 2)]
        r = pelgen.gen_pel(rng, eid=eid, creator=c, ud_targets=targets, max_sections=7, want_class="serviceable",
                           refcode_pool=pool)
        # sections for the shipped I/O drawer plugin carry well-formed trace buffers / ilog entries most of the time
        for sec in r["sections"]:
            if sec["kind"] in ("ud", "ed") and ud_module(pelgen.section_creator(r, sec), sec["comp"]) == "udparsers.m2c00.m2c00":
                if rng.random() < 0.6:
                    sec["subtype"] = rng.choice([72, 73, 84, 84])
                    sec["ver"] = rng.choice([1, 1, 2, 2, 3, 0])
                if sec["subtype"] == 84 and rng.random() < 0.8:
                    v = sec["ver"] if sec["ver"] in (1, 2) else 1
                    sec["payload"] = common.gen_trace_payload(rng, v, tfam[v])
                elif sec["subtype"] == 73 and rng.random() < 0.8:
                    sec["payload"] = common.gen_ilog_payload(rng)
        pels.append({"name": common.bmc_name(r), "recipe": r})
    fr = fault_rate if fault_rate is not None else rng.choice([0, 1, 1, 2, 3])
    ud_w = {"ok": 8, "raise": fr, "none": fr, "importerror": fr, "keyerror": fr // 2, "modulenotfound": fr // 2, "raise_noargs": (fr + 1) // 2}
    src_w = {"ok": 8, "raise": fr, "none": fr, "null": 1, "empty": 1, "importerror": fr, "modulenotfound": fr, "raise_noargs": (fr + 1) // 2}
    co_w = {"ok": 8, "raise": fr, "none": 1, "empty": 1, "importerror": fr // 2, "modulenotfound": fr // 2}
    plugins = {}
    for c, comp in targets:
        m = ud_module(c, comp)
        if m in SHIPPED or (c == "O" and comp == 0x2000):
            continue
        if rng.random() < 0.75:
            plugins[m] = {"type": "ud", "weights": dict(ud_w), "salt": rng.randrange(1 << 30),
                          "import": rng.choice(["ok"] * 8 + ["ImportError", "ModuleNotFoundError", "SyntaxError", "ValueError"])}
            # near-miss names that must never be consulted
            n = "%s%04X" % (c.lower(), comp)
            if n != n.lower():
                plugins["udparsers.%s.%s" % (n, n)] = {"type": "ud", "weights": HEALTHY, "salt": 0, "near_miss": True}
            if c != c.lower():
                n2 = "%s%04x" % (c, comp)
                plugins["udparsers.%s.%s" % (n2, n2)] = {"type": "ud", "weights": HEALTHY, "salt": 0, "near_miss": True}
            n3 = "%s%x" % (c.lower(), comp)
            if n3 != "%s%04x" % (c.lower(), comp):
                plugins["udparsers.%s.%s" % (n3, n3)] = {"type": "ud", "weights": HEALTHY, "salt": 0, "near_miss": True}
    for c in creators:
        if c == "O":
            continue
        if rng.random() < 0.7:
            plugins[src_module(c)] = {"type": "src", "weights": dict(src_w), "salt": rng.randrange(1 << 30),
                                      "import": rng.choice(["ok"] * 8 + ["ImportError", "SyntaxError"])}
        if rng.random() < 0.6:
            plugins[callout_module(c)] = {"type": "callout", "weights": dict(co_w), "salt": rng.randrange(1 << 30),
                                          "import": rng.choice(["ok"] * 9 + ["ImportError"])}
    # sub-dispatch targets of the shipped BMC SRC wrapper
    for p in pels:
        if p["recipe"]["creator"] != "O":
            continue
        for s in p["recipe"]["sections"]:
            if s["kind"] == "src":
                m = osrc_sub(s["ascii"])
                if m not in SHIPPED and rng.random() < 0.85:
                    plugins.setdefault(m, {"type": "src", "weights": dict(src_w), "salt": rng.randrange(1 << 30),
                                           "import": rng.choice(["ok"] * 8 + ["ImportError", "ModuleNotFoundError"])})
    for m, spec in plugins.items():
        if spec.get("import", "ok") == "ok" and not spec.get("near_miss") and rng.random() < 0.12 and \
                (spec["type"] == "ud" or (m.startswith("srcparsers.o") and m != "srcparsers.osrc.osrc")):
            spec["transient"] = 1
    return pels, plugins


def healthy_twin(plugins):
    tw = {}
    for m, s in plugins.items():
        t = dict(s)
        t["weights"] = dict(HEALTHY)
        t["import"] = "ok"
        t["transient"] = 0
        tw[m] = t
    return tw


# ---------------------------------------------------------------------------
def expected_calls(recipe, plugins, skip_plugins=False, pending=None, transient_sections=None):
    """[(section index, module, func, args tuple, n_valid_words or None)] in
    decode order, for fake modules that import successfully.  `pending` {module: transient import failures still
    to come} is consumed in decode order: the section that meets a failing import gets no call (its index is added
    to `transient_sections`)."""
    if skip_plugins:
        return []
    out = []
    pending = pending if pending is not None else {}
    transient_sections = transient_sections if transient_sections is not None else set()

    def importable(m, i):
        if pending.get(m, 0) > 0:
            pending[m] -= 1
            transient_sections.add(i)
            return False
        return True

    def live(m):
        return m in plugins and plugins[m].get("import", "ok") == "ok" and not plugins[m].get("near_miss")
    creator = recipe["creator"]
    for i, s in enumerate(recipe["sections"]):
        if s["kind"] == "src":
            cm = callout_module(creator)
            for c in (s.get("callouts") or []):
                proc = (c.get("fru") or {}).get("proc")
                if proc is not None and live(cm):
                    out.append((i, cm, "getMaintProcDesc", (proc,), None))
            words = ["%08X" % w for w in s["words"]]
            valid = max(0, min(8, s["wordcount"] - 1))
            args = (s["ascii"],) + tuple(words[:valid] + ["00000000"] * (8 - valid))
            m = src_module(creator) if creator != "O" else osrc_sub(s["ascii"])
            if live(m) and importable(m, i):
                out.append((i, m, "parseSRCToJson", args, valid))
        elif s["kind"] in ("ud", "ed"):
            c = pelgen.section_creator(recipe, s)
            if c == "O" and s["comp"] == 0x2000:
                continue
            m = ud_module(c, s["comp"])
            if live(m) and importable(m, i):
                out.append((i, m, "parseUDToJson", (s["subtype"], s["ver"], bytes.fromhex(s["payload"])), None))
    return out


def calls_match(exp, act):
    """compare one expected call with one logged call"""
    (_, m, f, args, valid) = exp
    (am, af, aargs, _b) = act
    if m != am or f != af:
        return False
    if valid is None or valid >= 8:
        return tuple(args) == tuple(aargs)
    return tuple(args[:1 + valid]) == tuple(aargs[:1 + valid]) and len(aargs) == 9


def section_keys(doc):
    return [k for k in doc.keys() if k not in ("Private Header", "User Header")]


HEADER_KEYS = ("Section Version", "Sub-section type", "Created by")


def header_keys(doc):
    """the per-section header fields: the three known names plus whatever every section of the document carries
    (so that an additional structural field added to all sections is not mistaken for payload content)"""
    secs = [v for v in doc.values() if isinstance(v, dict)]
    common_keys = set.intersection(*[set(v) for v in secs]) if len(secs) >= 3 else set()
    return set(HEADER_KEYS) | common_keys


def body(section, hdr=HEADER_KEYS):
    return {k: v for k, v in section.items() if k not in hdr}


def payload_recoverable(section, payload, repo_parse):
    data = section.get("Data") if isinstance(section, dict) else None
    return payload in recover(data, repo_parse)


def decoder_state(recipe, s, plugins, skip_plugins):
    """what the environment of this run provides for section s:
    'builtin-json' | 'builtin-text' | 'builtin-hex' | 'raw' | 'disabled' | 'absent' | 'import-failed:<kind>' |
    'fake' | 'shipped' | None (not a payload section)"""
    if s["kind"] == "raw":
        return "raw"
    if s["kind"] not in ("ud", "ed"):
        return None
    c = pelgen.section_creator(recipe, s)
    if c == "O" and s["comp"] == 0x2000:
        if s.get("badjson"):
            return "builtin-badjson"
        return {1: "builtin-json", 3: "builtin-text"}.get(s["subtype"], "builtin-hex")
    if skip_plugins:
        return "disabled"
    m = ud_module(c, s["comp"])
    if m in SHIPPED:
        return "shipped"
    if m not in plugins or plugins[m].get("near_miss"):
        return "absent"
    imp = plugins[m].get("import", "ok")
    if imp != "ok":
        return "import-failed:" + imp
    return "fake"


def repo_hexdump_parse():
    try:
        import importlib
        return importlib.import_module("pel.hexdump").parse
    except Exception:
        return None


def m2c00_expectation(s):
    """expected body of a section served by the shipped I/O drawer plugin,
    computed with the stand-alone decoders of the repository (real code)"""
    import importlib
    payload = bytes.fromhex(s["payload"])
    key = {72: "History Log", 73: "ILOG", 84: "Trace"}.get(s["subtype"])
    if key is None:
        return ("data", payload)
    files = {1: ("mex_pte.h", "mexStringFile"), 2: ("nimitz_pte.h", "nimitzStringFile")}.get(s["ver"])
    if files is None:
        return ("error", payload)
    base = os.path.join(world.MODULES, "io_drawer")
    try:
        mv = memoryview(payload)
        if key == "History Log":
            lines = importlib.import_module("io_drawer.hlog").parse_hlog_data(mv, os.path.join(base, files[0]))
        elif key == "ILOG":
            lines = importlib.import_module("io_drawer.ilog").parse_ilog_data(mv, os.path.join(base, files[0]))
        else:
            lines = importlib.import_module("io_drawer.trace").parse_trace_data(mv, os.path.join(base, files[1]))
    except Exception:
        return ("error", payload)
    return ("lines", {key: json.loads(json.dumps(lines))})
