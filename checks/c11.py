"""
C11 — only delete options remove files, and only the files they name.

Simulation: a seeded directory tree (top-level PELs, nested directories such
as `archive` holding PELs whose names contain the same ids, non-PEL files,
names that contain an id as an inner substring) and a seeded *history* of CLI
invocations over all modes, each with its own readdir permutation.  Oracle =
frame condition: recursive snapshot (path, type, size, sha256) of the real
backing tree before/after every invocation, plus the mutation log of the
os/open seams.
"""
import hashlib
import json
import os
import re

from sim import pelgen
from sim.world import World
from checks import common

PROPERTY = "C11"
LEVEL = "exploration"
MODES = ["O0"]
TIERS = {"quick": {"runs": 4000, "wall": 55}, "thorough": {"runs": 50000, "wall": 1500}}
RULE = ("plan = seeded tree (top-level PELs, archive/ and other subdirectories with PELs of the same ids, junk, "
        "names embedding an id) + history of 3..10 invocations drawn from every CLI mode, each with a seeded "
        "readdir order; distinct_nontrivial counts distinct abstract traces (sequence of (mode, effect class)) "
        "among histories with at least one state-changing invocation.")
COMPONENTS = {"real": ["pel.peltool.peltool.main() in-process"],
              "stub": ["directory enumeration order (SimFS)", "stdout capture"]}
ASSUMPTIONS = ["which of several files whose names contain the id --delete removes is not constrained (readdir dependent)",
               "--json without selection: which PELs get an output is not judged (C07); only names/locations of created files are"]
PROBES = ["json_missing_out_dir", "non_regular_entry", "symlink_in_pel_dir", "delete_unusual_id", "json_second_directory", "json_clean", "dir_name_contains_id", "json_fault_fired:error", "json_fault_fired:crash_after", "delete_hit", "delete_miss", "delete_all", "json_same_dir", "json_out_dir", "nested_same_id", "id_inner_substring",
          "delete_multi_match"]

READ_MODES = ["-l", "-a", "-n", "-i", "--bmc-id", "--plid", "--src", "--src-exclude", "-lx", "-ax", "-f", "-fx"]


def gen_plan(rng, tier, run):
    n = rng.randint(0, 6)
    files = common.gen_store(rng, n, style=rng.choice(["bmc", "bmc", "mixed"]), max_sections=3,
                             ext=rng.choice([None, None, [".pel", ""]]))
    tree = [{"path": "D/" + f["name"], "recipe": f["recipe"]} for f in files]
    eids = [f["recipe"]["eid"] for f in files]
    # nested directories, some holding PELs whose names contain top-level ids
    for d in rng.sample(["archive", "archive/old", "sub", "x.pel", "logs", "logs/archive"], rng.randint(0, 3)):
        tree.append({"path": "D/" + d, "dir": True})
        for _ in range(rng.randint(0, 2)):
            r = pelgen.gen_pel(rng, max_sections=2, eid=rng.choice(eids) if eids and rng.random() < 0.7 else None)
            tree.append({"path": "D/%s/%s" % (d, common.bmc_name(r)), "recipe": r, "nested_same_id": r["eid"] in eids})
    # non-PEL files, names embedding an id
    for _ in range(rng.randint(0, 2)):
        e = rng.choice(eids) if eids and rng.random() < 0.6 else pelgen.gen_id(rng)
        nm = rng.choice(["notes-%08X.txt", "%08X", "x%08Xy", "%08X.json"]) % e
        tree.append({"path": "D/" + nm, "raw_hex": rng.choice([b"", b"hello\n", b"PH", bytes(80)]).hex(), "embeds": e in eids})
    # symbolic links directly in the PEL directory, pointing at PELs stored elsewhere (archive, another directory)
    targets = [t for t in tree if "recipe" in t and t["path"].count("/") >= 2]
    for _ in range(rng.choice([0, 0, 1, 2])):
        r = pelgen.gen_pel(rng, max_sections=2, eid=rng.choice(eids) if eids and rng.random() < 0.5 else None)
        tgt = {"path": "X/store/" + common.bmc_name(r), "recipe": r}
        if targets and rng.random() < 0.5:
            tgt = rng.choice(targets)
        else:
            tree.append(tgt)
        nm = rng.choice([common.bmc_name(tgt["recipe"]), "link-%08X" % tgt["recipe"]["eid"], "current"])
        if not any(t["path"] == "D/" + nm for t in tree):
            tree.append({"path": "D/" + nm, "link_to": tgt["path"], "recipe_of_target": tgt["recipe"]})
    if rng.random() < 0.12:
        # entries that are neither regular files nor directories: dangling links and unix sockets, adjacent in
        # every listing order
        for nm in rng.choice([["zz_gone1", "zz_gone2"], ["00sock_a", "00sock_b"], ["zz_gone1", "zz_sock"]]):
            tree.append({"path": "D/" + nm, "special": "socket" if "sock" in nm else "dangling"})
    sep_ids = False
    if rng.random() < 0.1:
        # files whose location (relative to the PEL directory) is itself an 8-character string
        tree.append({"path": "X.PEL", "raw_hex": b"outside the PEL directory".hex()})
        tree.append({"path": "D/SUB", "dir": True})
        tree.append({"path": "D/SUB/FILE", "raw_hex": b"below the PEL directory".hex()})
        sep_ids = True
    if rng.random() < 0.06 and files:
        # a PEL whose name is close to NAME_MAX: "<name>.<eid>.json" cannot exist
        t0 = tree[0]
        if "recipe" in t0:
            t0["path"] = ("D/" + t0["path"][2:] + "_" + "y" * 255)[:2 + rng.choice([255, 250, 243])]
    tree.append({"path": "OUT", "dir": True})
    if files and rng.random() < 0.2:
        # the output directory already holds a file named exactly like one of the PELs (a raw backup copy)
        tree.append({"path": "OUT/" + rng.choice(files)["name"], "raw_hex": b"backup copy, not to be touched".hex()})
    tree.append({"path": "E", "dir": True})                       # a second, unrelated PEL directory
    for f in common.gen_store(rng, rng.randint(0, 2), style="bmc", max_sections=2):
        tree.append({"path": "E/" + f["name"], "recipe": f["recipe"]})
    tree.append({"path": "X/exclude.txt", "raw_hex": "\n".join(rng.sample(common.REFCODE_POOL, 3)).encode().hex()})
    ops = []
    for _ in range(rng.randint(3, 10)):
        m = rng.choice(READ_MODES + ["-d", "-d", "-d", "-D", "-j", "-j", "-jo", "-jo", "-jE", "-jEc", "-jc", "-jon"])
        op = {"mode": m, "opts": common.gen_selection(rng),
              "order": {"policy": rng.choice(["perm", "perm", "asc", "desc"]), "key": rng.randrange(1 << 30)}}
        if rng.random() < 0.2:
            op["opts"].append("-P")
        if rng.random() < 0.2:
            op["opts"].append("-r")
        if m in READ_MODES and m not in ("-f", "-fx") and rng.random() < 0.15:
            op["opts"].append("-c")          # --clean belongs to --json / --file; every other mode must ignore it
        if m in ("-i", "-d", "--plid"):
            known = eids + [t["recipe"]["eid"] for t in tree if "recipe" in t]
            e = rng.choice(known) if known and rng.random() < 0.75 else pelgen.gen_id(rng)
            op["arg"] = rng.choice(["%08X", "0x%08X", "%08x"]) % e
            if rng.random() < 0.15:
                # unusual spellings: too short with prefix, too long, glob metacharacters
                op["arg"] = rng.choice(["0x%06X" % (e & 0xFFFFFF), "%010X" % e, ("%08X" % e)[:7] + "?", "????????", "*" + ("%08X" % e)[1:],
                                        "[0-9]" + ("%08X" % e)[5:], ("%08X" % e)[:6] + "\\d",
                                        "+" + ("%08X" % e)[1:], ("%08X" % e)[1:5] + "_" + ("%08X" % e)[5:], " " + ("%08X" % e)[1:]])
        elif m == "--bmc-id":
            rs = [t["recipe"] for t in tree if "recipe" in t]
            op["arg"] = str(rng.choice(rs)["bmc_id"] if rs and rng.random() < 0.7 else rng.randrange(1, 10 ** 6))
        elif m == "--src":
            op["arg"] = rng.choice(["BD", "8D", "BD8D1234", "ZZZZ", "12"])
        elif m in ("-f", "-fx"):
            cands = [t["path"] for t in tree if "recipe" in t or "raw_hex" in t]
            op["arg"] = rng.choice(cands) if cands else "D/none"
        if m == "-jon":
            op["newdir"] = rng.choice(["NEW", "OUT/new", "NEW/deeper", "D/json"])
        if m == "-d" and rng.random() < 0.12:
            # the removal itself fails (read-only mount, immutable file): nothing else may be removed instead
            op["faults"] = [{"on": "remove", "nth": 0, "kind": "error", "errno": rng.choice(["EACCES", "EIO"])}]
        if m in ("-j", "-jo") and rng.random() < 0.3:
            op["ext"] = ".pel"
        if m in ("-j", "-jo", "-jc") and rng.random() < 0.35:
            ev = rng.choice(["open_out", "write", "write", "close", "close", "remove", "replace", "rename"])
            op["faults"] = [{"on": ev, "nth": rng.choice([0, 0, 1, 2, 57, 400]) if ev == "write" else rng.choice([0, 0, 1]),
                             "kind": rng.choice(["error", "error", "crash_before", "crash_after", "short"]),
                             "errno": rng.choice(["ENOSPC", "EIO"]), "keep": rng.choice([0, 10, 300])}]
            op["bufsize"] = rng.choice([0, 64, None])
        ops.append(op)
    if sep_ids:
        for o in ops:
            if o["mode"] in ("-d", "-i") and rng.random() < 0.7:
                o["arg"] = rng.choice(["../x.pel", "sub/file", "../X.PEL", "SUB/FILE"])
    # the PEL directory's own name may contain an entry id (e.g. cases/<EID>/)
    dname = "D"
    c = rng.random()
    if c < 0.25:
        known = eids + [pelgen.gen_id(rng)]
        dname = rng.choice(["cases-%08X", "%08X", "logs.%08X.d"]) % rng.choice(known)
    elif c < 0.4:
        dname = rng.choice(["pels[node0]", "run-1[a-z]", "logs*", "what?", "a b", "[0-9]"])
    if False:
        pass
        for o in ops:
            if o["mode"] in ("-d", "-i") and rng.random() < 0.6 and c < 0.25:
                o["arg"] = dname[-10:-2] if dname.endswith(".d") else dname[-8:]
    return {"tree": tree, "ops": ops, "dname": dname, "fresh": rng.random() < 0.4, "bmc": rng.random() < 0.25,
            "path_style": rng.choice(["abs", "abs", "abs", "rel", "slash", "dotdot"])}


def argv_of(op, dname="D"):
    a = _argv_of(op)
    return [x.replace("@/D", "@/" + dname, 1) if x == "@/D" or x.startswith("@/D/") else x for x in a]


def _argv_of(op):
    m = op["mode"]
    a = ["-p", "@/D"]
    if m in ("-l", "-a", "-n", "-D"):
        a += [m]
    elif m in ("-lx", "-ax"):
        a += [m[:2], "-x"]
    elif m in ("-i", "-d", "--bmc-id", "--plid", "--src"):
        a += [m, op["arg"]]
    elif m == "--src-exclude":
        a += [m, "@/X/exclude.txt"]
    elif m == "-f":
        a = ["-f", "@/" + op["arg"]]
    elif m == "-fx":
        a = ["-f", "@/" + op["arg"], "-x"]
    elif m == "-j":
        a += ["-j"]
    elif m == "-jo":
        a += ["-j", "-o", "@/OUT"]
    elif m == "-jon":
        # an output directory that does not exist: nothing may be created (not even the directory)
        a += ["-j", "-o", "@/" + op.get("newdir", "NEW")]
    elif m == "-jc":
        a += ["-j", "-c", "-o", "@/OUT"]
    elif m == "-jE":
        a = ["-p", "@/E", "-j", "-o", "@/OUT"]
    elif m == "-jEc":
        a = ["-p", "@/E", "-j", "-c", "-o", "@/OUT"]
    if op.get("ext"):
        a += ["-e", op["ext"]]
    return a + op["opts"]


def norm_id(arg):
    a = arg.upper()
    return a[2:] if a.startswith("0X") else a


def V(cls, detail):
    return {"class": cls, "key": "C11:" + cls, "detail": detail}


def execute(plan):
    stats = {}

    def bump(k, n=1):
        stats[k] = stats.get(k, 0) + n
    vio = []
    eids_by_path = {t["path"]: t["recipe"]["eid"] for t in plan["tree"] if "recipe" in t}
    eids_by_path.update({t["path"]: t["recipe_of_target"]["eid"] for t in plan["tree"] if "link_to" in t})
    for t in plan["tree"]:
        if t.get("nested_same_id"):
            bump("nested_same_id")
        if t.get("embeds"):
            bump("id_inner_substring")
    trace = []
    events = 0
    h = hashlib.sha256()
    dname = plan.get("dname", "D")
    if dname != "D":
        bump("dir_name_contains_id" if any(ch.isdigit() for ch in dname[-3:]) and "[" not in dname else "dir_name_glob_chars")

    def real(path):
        return dname + path[1:] if path == "D" or path.startswith("D/") else path

    def canon(snap):
        # snapshots are reported with the directory called D again
        return {("D" + p[len(dname):] if p == dname or p.startswith(dname + "/") else p): v for p, v in snap.items()}
    with World(bmc=plan.get("dname", "D") if plan.get("bmc") else None) as w:
        w.long_opts = bool(plan.get("long_opts"))
        w.fresh_per_run = bool(plan.get("fresh"))
        w.path_style = plan.get("path_style", "abs")
        if w.path_style == "dotdot":
            subs = [t["path"][2:] for t in plan["tree"] if t.get("dir") and t["path"].startswith("D/") and "/" not in t["path"][2:]]
            if subs and not plan.get("bmc"):
                w.dotdot_via = (plan.get("dname", "D"), subs[0])      # -p <link to D/sub>/..
            else:
                w.path_style = "abs"
        w.rel_dot = bool(plan.get("fresh"))
        if w.path_style != "abs":
            bump("path_style:" + w.path_style)
        if plan.get("bmc"):
            bump("environment:bmc")
        bump("process_model:fresh" if w.fresh_per_run else "process_model:shared")
        for t in plan["tree"]:
            if t.get("dir"):
                w.mkdir(real(t["path"]))
            elif "recipe" in t:
                w.put(real(t["path"]), pelgen.build(t["recipe"]))
            elif "link_to" in t or "special" in t:
                pass
            else:
                w.put(real(t["path"]), bytes.fromhex(t["raw_hex"]))
        w.mkdir(dname)
        for t in plan["tree"]:
            if t.get("special") == "dangling":
                w.symlink(real(t["path"]), real("X/nowhere/" + t["path"].rsplit("/", 1)[-1]))
                bump("non_regular_entry")
            elif t.get("special") == "socket":
                import socket
                sk = socket.socket(socket.AF_UNIX)
                try:
                    sk.bind(w.path(real(t["path"])))
                finally:
                    sk.close()
                bump("non_regular_entry")
            if "link_to" in t:
                w.symlink(real(t["path"]), real(t["link_to"]))
                bump("symlink_in_pel_dir")
        json_outputs = set()  # files created by earlier --json invocations
        created_eid = {}     # path -> eid for PEL files (by construction)
        for p, e in eids_by_path.items():
            created_eid[p] = e
        if w.path_style == "dotdot" and w.dotdot_via:
            w.symlink("LNK", real("D/" + w.dotdot_via[1]))        # part of the set-up, not of any invocation
        for op in plan["ops"]:
            before = canon(w.snapshot())
            argv = argv_of(op, dname)
            r = w.run(argv, order=op["order"], faults=op.get("faults"), file_bufsize=op.get("bufsize"))
            after = canon(w.snapshot())
            if r.fired:
                bump("json_fault_fired:" + r.fired[0]["kind"])
            events += len(r.events)
            h.update(r.digest.encode())
            h.update(json.dumps(sorted(after.items())).encode())
            removed = sorted(set(before) - set(after))
            added = sorted(set(after) - set(before))
            changed = sorted(p for p in set(before) & set(after) if before[p] != after[p])
            m = op["mode"]
            ctx = "argv=%s removed=%s added=%s changed=%s" % (argv, removed, added, changed)
            if r.exc:
                # an uncaught exception is C05/C09 territory; only the frame
                # condition is judged here
                bump("uncaught_exception")
            if changed and m in ("-j", "-jo", "-jc", "-jE", "-jEc", "-jon"):
                # re-running --json may rewrite its own earlier outputs
                outdir_ = "D" if m == "-j" else "OUT"
                changed = [p for p in changed if not (p.rpartition("/")[0] == outdir_ and p in json_outputs)]
            if changed:
                vio.append(V("file-modified", "existing files were modified: " + ctx))
            muts = [x for x in r.mutations]
            if m in READ_MODES:
                if removed or added:
                    vio.append(V("read-mode-mutated-tree", ctx))
                elif muts:
                    # mutating calls whose net effect is nil (temp file created and removed) leave the tree
                    # unchanged, which is all the property asks for: counted, not flagged
                    bump("read_mode_transient_mutation")
                trace.append(m + ":ro")
            elif m == "-d":
                core = norm_id(op["arg"])
                if re.fullmatch(r"[0-9A-F]+", core):
                    val = int(core, 16)
                    E = "%08X" % val if val < (1 << 32) else core
                else:
                    E = core                    # not plain hex digits: only a name containing it literally can be meant
                wellformed = len(core) == 8 and E == core
                if not wellformed:
                    bump("delete_unusual_id")
                top_matching = [p for p in before if p.startswith("D/") and "/" not in p[2:] and E in p[2:] and before[p][0] != "d"]
                if added:
                    vio.append(V("delete-created-files", ctx))
                if len(removed) > 1:
                    vio.append(V("delete-removed-several", ctx))
                for p in removed:
                    if not (p in top_matching):
                        vio.append(V("delete-wrong-file", "--delete %s removed %s (top-level matching names: %s)" % (op["arg"], p, top_matching)))
                nf = "PEL not found" in r.stdout
                if wellformed and top_matching and not removed and r.exit == 0 and not r.exc:
                    vio.append(V("delete-missed", "--delete %s removed nothing although %s match; stdout=%r" % (op["arg"], top_matching, r.stdout[:100])))
                if wellformed and not top_matching and not nf and r.exit == 0:
                    vio.append(V("delete-no-notfound", "--delete %s: no top-level name contains the id but 'PEL not found' was not printed; stdout=%r" % (op["arg"], r.stdout[:100])))
                if removed and nf:
                    vio.append(V("delete-notfound-but-removed", ctx))
                bump("delete_hit" if removed else "delete_miss")
                if len(top_matching) > 1:
                    bump("delete_multi_match")
                trace.append("-d:%d/%d" % (len(removed), min(2, len(top_matching))))
            elif m == "-D":
                top_files = sorted(p for p in before if p.startswith("D/") and "/" not in p[2:] and before[p][0] == "f")
                if added:
                    vio.append(V("delete-all-created-files", ctx))
                top_links = sorted(p for p in before if p.startswith("D/") and "/" not in p[2:] and before[p][0] == "l"
                                   and before[p][2])      # dangling links are not files in any sense
                # symbolic links directly in the directory may go or stay (not regular files, but isfile() follows
                # them); what they point to must stay
                if not (set(top_files) <= set(removed) <= set(top_files) | set(top_links)):
                    vio.append(V("delete-all-wrong-set", "--delete-all removed %s, top-level regular files were %s (links %s)" % (removed, top_files, top_links)))
                bump("delete_all")
                trace.append("-D:%d" % min(3, len(removed)))
            elif m in ("-j", "-jo", "-jc", "-jE", "-jEc", "-jon"):
                outdir = "D" if m == "-j" else "OUT"
                indir = "E" if m in ("-jE", "-jEc") else "D"
                top_inputs = {p[2:] for p in before if p.startswith(indir + "/") and "/" not in p[2:] and before[p][0] in ("f", "l")}
                if m in ("-jc", "-jEc"):
                    # --clean may remove top-level inputs of ITS OWN directory (whether each removal was justified is
                    # C12's business); nothing else may disappear
                    foreign = [p for p in removed if not (p.startswith(indir + "/") and p[2:] in top_inputs)]
                    if foreign:
                        vio.append(V("json-clean-removed-foreign-files", "--json --clean on %s removed %s; %s" % (indir, foreign, ctx)))
                elif removed:
                    vio.append(V("json-removed-files", ctx))
                for p in added:
                    d, _, base = p.rpartition("/")
                    mm = re.fullmatch(r"(.+)\.([0-9A-Fa-f]+)\.json", base)
                    ok = d == outdir and mm is not None and mm.group(1) in top_inputs and after[p][0] == "f"
                    if ok:
                        src = indir + "/" + mm.group(1)
                        e = created_eid.get(src)
                        if e is None or int(mm.group(2), 16) != e:
                            ok = False
                        if op.get("ext") and not common.ext_matches(mm.group(1), op["ext"]):
                            ok = False
                    if ok and not r.fired and not r.crashed:
                        # the id in the name is the entry id the document itself shows
                        try:
                            doc = json.loads(w.read(real(p)).decode())
                            shown = doc["Private Header"]["Entry Id"]
                            if shown.upper().replace("0X", "") != mm.group(2).upper():
                                vio.append(V("json-name-id-differs-from-entry-id", "--json created %s but the document inside shows Entry Id %s" % (p, shown)))
                        except Exception as e:      # noqa
                            vio.append(V("json-output-unreadable", "--json created %s which is not a readable document (%s) although nothing failed" % (p, type(e).__name__)))
                    if ok:
                        json_outputs.add(p)
                    if not ok:
                        vio.append(V("json-bad-output-name", "--json created %s (output dir %s, inputs %s); %s" % (p, outdir, sorted(top_inputs), ctx)))
                bump("json_same_dir" if m == "-j" else ("json_missing_out_dir" if m == "-jon" else "json_out_dir"))
                if indir == "E":
                    bump("json_second_directory")
                if m in ("-jc", "-jEc"):
                    bump("json_clean")
                trace.append("%s:%d%s" % (m, min(3, len(added)), ("!" + r.fired[0]["kind"] + "@" + r.fired[0]["event"]) if r.fired else ""))
    seen, uniq = set(), []
    for v in vio:
        if v["key"] not in seen:
            seen.add(v["key"])
            uniq.append(v)
    nontrivial = any(not t.endswith(":ro") for t in trace)
    sample = {"tree": [t["path"] for t in plan["tree"]], "pel_dir_name": dname, "history": [argv_of(o, dname) for o in plan["ops"]], "trace": trace}
    return {"violations": uniq, "stats": stats, "traces": ["|".join(trace)] if nontrivial else [], "events": events,
            "evals": len(plan["ops"]), "digest": h.hexdigest(), "sample": sample}


def shrink_candidates(plan, violation):
    P = lambda: json.loads(json.dumps(plan))
    for i in range(len(plan["ops"]) - 1, -1, -1):
        if len(plan["ops"]) > 1:
            c = P()
            del c["ops"][i]
            yield c
    for i in range(len(plan["tree"]) - 1, -1, -1):
        t = plan["tree"][i]
        if t["path"] in ("OUT", "X/exclude.txt"):
            continue
        if t.get("dir") and any(o["path"].startswith(t["path"] + "/") for o in plan["tree"]):
            continue
        c = P()
        del c["tree"][i]
        yield c
    for i, t in enumerate(plan["tree"]):
        if "recipe" in t and t["recipe"]["sections"]:
            c = P()
            c["tree"][i]["recipe"]["sections"] = []
            yield c
    for i, o in enumerate(plan["ops"]):
        if o["opts"]:
            c = P()
            c["ops"][i]["opts"] = []
            yield c
        if o["order"]["policy"] != "asc":
            c = P()
            c["ops"][i]["order"] = {"policy": "asc", "key": 0}
            yield c
            c = P()
            c["ops"][i]["order"] = {"policy": "desc", "key": 0}
            yield c
