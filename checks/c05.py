"""
C05 — malformed PELs are rejected cleanly: never a hang, crash or fabricated
decode; equally with assertions disabled.

Simulation: the stored PEL file is the faulty component.  For each seeded
well-formed PEL w the simulator applies storage-at-rest faults – EVERY proper
prefix (= every torn-write point), single-byte corruptions (every offset in
the thorough tier; structure-biased sample in quick), garbage, and double
faults (prefix of a corrupted copy) – and runs the real CLI (`-f`) and
`parsePEL` on each, in worker interpreters with and without `-O`.
"""
import hashlib
import json
import random
import sys
import time

from sim import pelgen, world
from sim.world import World, HarnessError
from checks import common

PROPERTY = "C05"
LEVEL = "exploration"
MODES = ["O0", "O1"]
TIERS = {"quick": {"runs": 220, "wall": 55}, "thorough": {"runs": 6000, "wall": 1500}}
RULE = ("plan = one seeded well-formed PEL (2..10 sections, <= ~2 KiB) + fault list: every proper prefix, single-"
        "byte corruptions (structure-biased sample; every offset x 4 values in 'full' plans), garbage strings, "
        "prefixes of corrupted copies; each faulted file goes through `peltool -f` (in-process main) and parsePEL, "
        "half of the plans in `python -O` interpreters.  distinct_nontrivial counts distinct abstract traces "
        "(fault kind, section/field hit, outcome class of the CLI, outcome class of parsePEL, optimisation level).")
COMPONENTS = {"real": ["pel.peltool.peltool.main() and parsePEL, pel.datastream.DataStream, all section decoders; real "
                       "`python -O` interpreters for half of the plans"],
              "stub": ["the stored PEL file (faults applied at rest)", "stdout/stderr capture",
                       "sys.monitoring step counter (deterministic hang detector)", "bounds monitor wrapped around DataStream.get_mem/inc_index"]}
ASSUMPTIONS = ["every byte of a generated PEL is covered by a declared length, so no proper prefix is a complete PEL",
               "step budget 2e6 + 4000*len(input) monitored events (function starts + jumps in repository code); normal decodes use < 5e4",
               "faults during fd.read() itself (EIO mid-read) are out of scope"]
PROBES = ["decoy_neighbour", "big_padded_payload_plans", "prefix_in_header", "prefix_on_section_boundary", "flip_in_length_field", "outcome:cli:doc", "outcome:cli:error0",
          "outcome:cli:exit1", "garbage", "double"]

BUDGET_BASE, BUDGET_PER_BYTE = 2_000_000, 4000
CPU_BUDGET_S = 20      # per decode; second line of defence for time spent outside Python byte-code (regex, C loops)


class StepBudgetExceeded(BaseException):
    pass


class CpuGuard:
    """interrupts a decode that has burnt CPU_BUDGET_S seconds of CPU time outside byte-code (regex back-tracking
    checks for pending signals, as do most long C loops): a real ITIMER_VIRTUAL whose handler raises
    StepBudgetExceeded.  CPU time, not wall time: an overloaded machine does not trip it."""

    def __enter__(self):
        import signal
        self.ok = False
        try:
            self.prev = signal.signal(signal.SIGVTALRM, self._fire)
            world._o_setitimer(signal.ITIMER_VIRTUAL, CPU_BUDGET_S)
            self.ok = True
        except (ValueError, OSError, AttributeError):
            pass                        # not the main thread / no such timer: the post-hoc CPU check remains
        return self

    @staticmethod
    def _fire(signum, frame):
        raise StepBudgetExceeded("more than %d s of CPU time" % CPU_BUDGET_S)

    def __exit__(self, *exc):
        import signal
        if self.ok:
            world._o_setitimer(signal.ITIMER_VIRTUAL, 0)
            signal.signal(signal.SIGVTALRM, self.prev if self.prev is not None else signal.SIG_DFL)
        return False


class Steps:
    """deterministic step counter over repository code (python 3.12 sys.monitoring)"""
    TOOL = 3

    def __init__(self):
        self.count = 0
        self.budget = 0
        self.on = False
        self.mon = getattr(sys, "monitoring", None)

    def start(self):
        m = self.mon
        if m is None:
            return
        try:
            m.use_tool_id(self.TOOL, "verif-steps")
        except ValueError:
            m.free_tool_id(self.TOOL)
            m.use_tool_id(self.TOOL, "verif-steps")
        E = m.events
        prefix = world.MODULES

        def on_event(code, *a):
            if not code.co_filename.startswith(prefix):
                return m.DISABLE
            self.count += 1
            if self.count > self.budget and self.on:
                self.on = False
                raise StepBudgetExceeded("%d monitored events" % self.count)
        m.register_callback(self.TOOL, E.PY_START, on_event)
        m.register_callback(self.TOOL, E.JUMP, on_event)
        m.set_events(self.TOOL, E.PY_START | E.JUMP)

    def stop(self):
        m = self.mon
        if m is None:
            return
        m.set_events(self.TOOL, 0)
        m.register_callback(self.TOOL, m.events.PY_START, None)
        m.register_callback(self.TOOL, m.events.JUMP, None)
        m.free_tool_id(self.TOOL)

    def arm(self, nbytes):
        self.count = 0
        self.budget = BUDGET_BASE + BUDGET_PER_BYTE * nbytes
        self.on = True
        if self.mon is not None:
            self.mon.restart_events()


def gen_plan(rng, tier, run):
    # a third of the plans aim user-data sections at the shipped parser plugins (real code fed damaged payloads)
    shipped = rng.random() < 0.35
    r = pelgen.gen_pel(rng, max_sections=8, creator=rng.choice(["O", "O", "M"]) if shipped else None,
                       ud_targets=[("O", 0xE500), ("O", 0xE500), ("M", 0x2C00)] if shipped else None)
    if shipped:
        for sec in r["sections"]:
            if sec["kind"] in ("ud", "ed") and sec["comp"] == 0xE500:
                sec["subtype"] = rng.choice([1, 1, 2, 3, 4, 5, 9])
                if sec["subtype"] in (1, 2):
                    # a plausible count followed by data
                    sec["payload"] = (bytes([0, 0, 0, rng.randint(0, 3)]) + bytes.fromhex(sec["payload"])).hex()
            elif sec["kind"] == "ud" and sec["comp"] == 0x2C00 and r["creator"] == "M" and rng.random() < 0.7:
                # a well-formed I/O drawer trace buffer (header + entries), so that damage lands in fields the
                # trace decoder interprets (buffer size, entry lengths) and not only in front of its first check
                sec["subtype"], sec["ver"] = 84, rng.choice([1, 2])
                sec["payload"] = common.gen_trace_payload(rng, sec["ver"])
    data = pelgen.build(r)
    while len(data) > 2300:
        r["sections"].pop()
        data = pelgen.build(r)
    full = tier == "thorough" and rng.random() < 0.15
    plan = {"recipe": r, "full_flips": full, "prefixes": "all" if (full or rng.random() < 0.5) else "sample",
            "fseed": rng.randrange(1 << 30), "opts": rng.choice([["-E"], ["-E"], ["-E", "-P"], ["-E", "-x"]]),
            "nflips": 120 if tier == "quick" else 400, "registry": rng.random() < 0.3,
            # which single-PEL path of the CLI reads the damaged file
            "cli": rng.choice(["-f", "-f", "-f", "-i", "-a", "--bmc-id", "-l", "--plid", "--src", "-n", "-j"]),
            "stdout_encoding": rng.choice(["utf-8", "utf-8", "ascii", "latin-1"]),
            # one plan in 25: a PEL with a ~64 kB NUL/blank padded built-in text or JSON section (worst case for
            # anything super-linear in the payload), few faults
            "big": rng.random() < 0.04,
            # directory modes: a healthy PEL stored beside the damaged file (sorted before or after it)
            "decoy": rng.choice([None, None, "0decoy", "zdecoy"]),
            # -f may be combined with --clean (the harness restores the file before every execution)
            "clean": rng.random() < 0.25,
            # the name of the damaged file
            "fname": rng.choice(["pel"] * 5 + ["pel%20copy", "100%.pel", "x_%s.pel", "{0}.pel", "a b.pel", "\u00e9.pel"])}
    if plan["big"]:
        pad = rng.choice([b"\x00", b" ", b"\x00 ", b"\n"])
        body = rng.choice([b'{"k": "v"}', b"line one\nline two"])
        n = rng.choice([20000, 60000, 65000])
        payload = body + (pad * n)[:n - len(body)]
        plan["recipe"]["creator"] = "O"
        # (only SRC sections are kept: a user-data section generated for another creator would turn into a
        # built-in format section with a payload that never was JSON / text)
        plan["recipe"]["sections"] = [x for x in plan["recipe"]["sections"][:2] if x["kind"] == "src"] + [
            {"kind": "ud", "id": "UD", "ver": 1, "subtype": 1 if body.startswith(b"{") else 3, "comp": 0x2000, "payload": payload.hex()}]
        plan["prefixes"] = "sample"
        plan["nflips"] = 6
        plan["full_flips"] = False          # 64 kB x every offset would take an hour
    return plan


def fault_list(plan, data):
    rng = random.Random(plan["fseed"])
    r = plan["recipe"]
    offs = pelgen.section_offsets(r)
    fields = pelgen.field_offsets(r)
    faults = []
    if plan.get("only") is not None:
        return plan["only"]
    n = len(data)
    if plan["prefixes"] == "all":
        ks = range(n)
    else:
        ks = sorted(set(list(range(0, min(n, 80))) + [e + d for _, s, e in offs for d in (-2, -1, 0, 1, 4, 7, 8, 9) if 0 <= e + d < n]
                        + [rng.randrange(n) for _ in range(60)]))
    if plan.get("big"):
        ks = sorted(set([0, 47, 71, 72, 79, 80, 90] + [n - d for d in (1, 2, 3, 5, 100)]))
        # the padded payload with only its last bytes damaged
        faults += [{"kind": "flip", "off": n - d, "val": v} for d in (1, 2) for v in (0x41, 0xFF)]
    faults += [{"kind": "torn", "off": k} for k in ks]
    # size / offset words of an I/O drawer trace buffer header claiming (much) more than the section holds
    for (sid, start, end), sec in zip(offs[2:], r["sections"]):
        if sec["kind"] == "ud" and sec.get("comp") == 0x2C00 and sec.get("subtype") == 84 and end - start >= 8 + 32:
            for fo in (20, 21, 28):
                for val in (0xFF, 0x7F, 0x01):
                    if start + 8 + fo < n and data[start + 8 + fo] != val:
                        faults.append({"kind": "flip", "off": start + 8 + fo, "val": val})
    if plan["full_flips"]:
        for off in range(n):
            cur = data[off]
            for val in sorted({0x00, 0xFF, cur ^ 0x01, cur ^ 0x80} - {cur}):
                faults.append({"kind": "flip", "off": off, "val": val})
    else:
        for _ in range(plan["nflips"]):
            faults.append(common.gen_junk(rng, data, offs, kinds=["flip"], fields=fields))
    # valid two-byte UTF-8 inside text fields (reference code, MTMS, symptom id, location codes)
    text_starts = [o for o, w_, nme in fields if nme == "src.asciitype"]
    for _ in range(10 if not plan.get("big") else 2):
        if text_starts and rng.random() < 0.7:
            off = rng.choice(text_starts) + rng.randrange(0, 31)
        else:
            off = rng.randrange(max(1, n - 1))
        faults.append({"kind": "utf8", "off": off, "seq": rng.choice(["c3a9", "c2b5", "d0b6"])})
    for _ in range(12 if not plan.get("big") else 2):
        faults.append(common.gen_junk(rng, data, offs, kinds=["garbage"]))
    for _ in range(40 if not plan.get("big") else 4):
        f = common.gen_junk(rng, data, offs, kinds=["flip"], fields=fields)
        f["then_torn"] = rng.randrange(f["off"] + 1, n + 1) if f["off"] + 1 <= n else n
        faults.append(f)
    return faults


def apply(data, f):
    d = common.apply_junk(data, f)
    if "then_torn" in f:
        d = d[:f["then_torn"]]
    return d


def V(cls, detail, fault=None):
    return {"class": cls, "key": "C05:" + cls, "detail": detail, "fault": fault}


def install_bounds_monitor(w, hits):
    """wrap DataStream.get_mem / inc_index: a call that returns normally must
    leave index <= size and deliver exactly the requested number of bytes"""
    import importlib
    ds = importlib.import_module("pel.datastream")
    cls = getattr(ds, "DataStream", None)
    if cls is None or not hasattr(cls, "get_mem") or not hasattr(cls, "inc_index"):
        return False
    og, oi = cls.get_mem, cls.inc_index

    def get_mem(self, num_bytes):
        before = self.index
        res = og(self, num_bytes)
        try:
            if self.index > self.size or len(res) != num_bytes or self.index != before + num_bytes:
                hits.append("get_mem(%r) at index %d of %d returned %d bytes, index now %d" % (
                    num_bytes, before, self.size, len(res), self.index))
        except TypeError:
            pass
        return res

    def inc_index(self, num_bytes):
        res = oi(self, num_bytes)
        if self.index > self.size:
            hits.append("inc_index(%r) moved index to %d of %d" % (num_bytes, self.index, self.size))
        return res
    cls.get_mem, cls.inc_index = get_mem, inc_index
    return True


def execute(plan):
    stats = {}
    traces = set()

    def bump(k, n=1):
        stats[k] = stats.get(k, 0) + n
    opt = "O1" if sys.flags.optimize else "O0"
    if plan.get("_mode", opt) != opt:
        raise HarnessError("plan wants mode %s but interpreter runs %s" % (plan.get("_mode"), opt))
    r = plan["recipe"]
    data = pelgen.build(r)
    offs = pelgen.section_offsets(r)
    faults = fault_list(plan, data)
    class _Vio(list):
        def append(self, v):
            if all(x["key"] != v["key"] for x in self):
                list.append(self, v)
    vio = _Vio()
    events = evals = 0
    h = hashlib.sha256()
    reg = common.gen_registry(random.Random(plan["fseed"]), [r]) if plan.get("registry") else None
    steps = Steps()
    with World(registry=reg) as w:
        w.long_opts = bool(plan.get("long_opts"))
        hits = []
        monitored = install_bounds_monitor(w, hits)
        bump("bounds_monitor_installed" if monitored else "bounds_monitor_unavailable")
        pt = w.peltool
        Config = __import__("pel.peltool.config", fromlist=["Config"]).Config
        DataStream = __import__("pel.datastream", fromlist=["DataStream"]).DataStream
        steps.start()
        try:
            # the intact PEL must decode (generator sanity; not a verdict)
            fpath = "F/" + plan.get("fname", "pel")
            w.put(fpath, data)
            steps.arm(len(data))
            ref = w.run(["-f", "@/" + fpath, "-E"])
            ok, _ = common.parse_json_stream(ref.stdout)
            if not ok or ref.exit != 0 or hits:
                raise HarnessError("intact PEL does not decode cleanly: exit=%r stderr=%s hits=%s" % (ref.exit, ref.stderr[-300:], hits[:2]))
            max_steps = steps.count
            max_cpu = 0.0
            gname = common.bmc_name(r)
            decoy_out = {}
            if plan.get("decoy") and plan.get("cli") in ("-a", "-l", "-n"):
                import random as _random
                dr = pelgen.gen_pel(_random.Random(plan["fseed"] + 7), eid=r["eid"] ^ 0x00010000, want_class="serviceable", max_sections=2)
                w.put("G/" + plan["decoy"], pelgen.build(dr))
                ref_d = w.run(["-p", "@/G", plan["cli"]] + plan["opts"], stdout_encoding=plan.get("stdout_encoding", "utf-8"))
                decoy_out = {"stdout": ref_d.stdout}
                bump("decoy_neighbour")
            for f in faults:
                bad = apply(data, f)
                if bad == data:
                    continue
                kind = f["kind"] + ("+torn" if "then_torn" in f else "")
                is_prefix = f["kind"] == "torn" or (f["kind"] == "lost")
                w.put(fpath, bad)
                del hits[:]
                # ---- CLI
                steps.arm(len(bad))
                cli = plan.get("cli", "-f")
                if cli == "-f":
                    argv = ["-f", "@/" + fpath] + plan["opts"] + (["-c"] if plan.get("clean") else [])
                else:
                    # the damaged file is the only file of a PEL directory, stored under its BMC-style name
                    w.put("G/" + gname + ("" if plan.get("fname", "pel") == "pel" else "." + plan["fname"]), bad)
                    ps = [x for x in r["sections"] if x["kind"] == "src" and x["id"] == "PS"]
                    if cli == "-j":
                        # the damaged file exists twice: conversion must report each and still end with status 0 / 1
                        w.put("G/" + gname + ".copy", bad)
                        w.mkdir("GOUT")
                    argv = ["-p", "@/G"] + {"-i": ["-i", "%08X" % r["eid"]], "-a": ["-a"], "--bmc-id": ["--bmc-id", str(r["bmc_id"])],
                                            "-j": ["-j", "-o", "@/GOUT"],
                                            "-l": ["-l"], "-n": ["-n"], "--plid": ["--plid", "%08X" % r["plid"]],
                                            "--src": ["--src", ps[0]["ascii"][:2] if ps else "BD"]}[cli] + plan["opts"]
                t_cpu = time.process_time()
                with CpuGuard():
                    res = w.run(argv, stdout_encoding=plan.get("stdout_encoding", "utf-8"))
                cpu = time.process_time() - t_cpu
                max_cpu = max(max_cpu, cpu)
                if cpu > CPU_BUDGET_S:
                    vio.append(V("hang", "peltool %s on %s (%d bytes) needed %.1f s of CPU time (budget %d s; an intact PEL of this size needs < 0.2 s)" % (
                        cli, json.dumps(f), len(bad), cpu, CPU_BUDGET_S), f))
                    break
                evals += 1
                events += len(res.events)
                max_steps = max(max_steps, steps.count)
                fdesc = json.dumps(f, sort_keys=True)      # (order independent: replay files are written with sorted keys)
                if res.exc and res.exc.startswith("StepBudgetExceeded"):
                    vio.append(V("hang", "peltool %s on %s (%d bytes) exceeded the step budget: %s" % (cli, fdesc, len(bad), res.exc), f))
                    break
                oc = None
                if res.exc:
                    vio.append(V("uncaught-exception", "peltool %s on %s: %s; stderr tail: %s" % (cli, fdesc, res.exc, res.stderr[-600:]), f))
                    oc = "uncaught"
                elif res.exit not in (0, 1) and not isinstance(res.exit, str):
                    vio.append(V("exit-status", "peltool %s on %s: exit status %r" % (cli, fdesc, res.exit), f))
                    oc = "badexit"
                if "Traceback (most recent call last)" in res.stderr and not res.exc:
                    vio.append(V("traceback", "peltool %s on %s printed a traceback: %s" % (cli, fdesc, res.stderr[-500:]), f))
                hexmode = "-x" in plan["opts"]
                produced_doc = False
                if cli == "-j":
                    import os as _os, shutil as _shutil
                    outs = sorted(_os.listdir(w.path("GOUT")))
                    produced_doc = bool(outs)
                    _shutil.rmtree(w.path("GOUT"), ignore_errors=True)
                elif res.stdout:
                    if res.stdout.strip() == "PEL not found" and plan.get("cli") in ("-i", "--bmc-id"):
                        pass
                    elif hexmode and cli != "-n":
                        blocks = common.split_hex_blocks(res.stdout)
                        produced_doc = True
                        if decoy_out:
                            if blocks is None or any(b is None for b in blocks):
                                vio.append(V("stdout-malformed", "peltool %s -x on %s: stdout is not a sequence of dumps" % (cli, fdesc), f))
                        elif blocks is None or len(blocks) != 1 or blocks[0] != bad:
                            vio.append(V("stdout-malformed", "peltool -f -x on %s: stdout is not the dump of the input" % fdesc, f))
                    else:
                        ok, j = common.parse_json_stream(res.stdout)
                        empty = (cli == "-a" and j == []) or (cli in ("-l", "--plid", "--src") and j == {}) or \
                            (cli == "-n" and isinstance(j, dict) and j.get("Number of PELs found") == 0)
                        produced_doc = not (ok and empty)
                        if not ok:
                            vio.append(V("stdout-not-json", "peltool %s on %s: stdout is not one JSON document: %r" % (cli, fdesc, res.stdout[:200]), f))
                # the summary modes read up to the end of the primary SRC only, the count mode only the two headers:
                # a prefix that still holds all of that is legitimately reported
                need = len(data)
                if cli == "-n":
                    need = 72
                elif cli in ("-l", "--plid", "--src"):
                    need = next((e for sid, st, e in offs if sid == "PS"), len(data))
                if is_prefix and len(bad) >= need:
                    is_prefix_cli = False
                else:
                    is_prefix_cli = is_prefix
                if decoy_out:
                    produced_doc = False
                    if is_prefix_cli and not res.exc and res.stdout != decoy_out["stdout"]:
                        vio.append(V("prefix-decoded", "peltool %s: adding a %d-byte proper prefix of a %d-byte PEL to a directory holding one healthy PEL changed stdout (-O=%s): %s" % (
                            cli, len(bad), len(data), opt == "O1", res.stdout[:150].replace("\n", " ")), f))
                if is_prefix_cli and produced_doc:
                    vio.append(V("prefix-decoded", "peltool -f decoded a %d-byte proper prefix of a %d-byte PEL (exit %r, -O=%s): %s" % (
                        len(bad), len(data), res.exit, opt == "O1", res.stdout[:150].replace("\n", " ")), f))
                if hits:
                    vio.append(V("read-past-end", "DataStream read past the end while decoding %s: %s" % (fdesc, hits[0]), f))
                oc = oc or ("doc" if produced_doc else ("exit1" if res.exit == 1 or isinstance(res.exit, str) else "error0"))
                bump("outcome:cli:" + oc)
                # ---- parsePEL directly
                del hits[:]
                steps.arm(len(bad))
                cfg = Config()
                cfg.every_pel = True
                w.fs.active = True
                saved = (sys.stdout, sys.stderr)
                import io
                sys.stdout, sys.stderr = io.StringIO(), io.StringIO()
                po = None
                try:
                    try:
                        with CpuGuard():
                            eid, js = pt.parsePEL(DataStream(bad, byte_order="big", is_signed=False), cfg, False)
                        po = "doc" if js else "empty"
                        if is_prefix and js:
                            vio.append(V("prefix-decoded", "parsePEL decoded a %d-byte proper prefix of a %d-byte PEL (-O=%s)" % (len(bad), len(data), opt == "O1"), f))
                    except StepBudgetExceeded as e:
                        vio.append(V("hang", "parsePEL on %s exceeded the step budget: %s" % (fdesc, e), f))
                        po = "hang"
                    except Exception as e:
                        po = "exc:" + type(e).__name__
                    except BaseException as e:       # noqa
                        po = "base:" + type(e).__name__
                        if not isinstance(e, SystemExit):
                            vio.append(V("parsepel-base-exception", "parsePEL on %s raised %r" % (fdesc, e), f))
                finally:
                    sys.stdout, sys.stderr = saved
                    w.fs.active = False
                evals += 1
                max_steps = max(max_steps, steps.count)
                if hits:
                    vio.append(V("read-past-end", "DataStream read past the end in parsePEL on %s: %s" % (fdesc, hits[0]), f))
                bump("outcome:parsepel:" + po.split(":")[0])
                # ---- coverage bookkeeping
                if f["kind"] == "torn":
                    if f["off"] < 72:
                        bump("prefix_in_header")
                    if any(f["off"] == e for _, s, e in offs):
                        bump("prefix_on_section_boundary")
                    where = next((sid for sid, s, e in offs if s <= f["off"] < e), "?")
                    traces.add("torn|%s|%s|%s|%s|%s" % (where, oc, po, opt, plan.get("cli", "-f")))
                elif f["kind"] == "flip":
                    if f.get("field"):
                        bump("flip_in_length_field")
                    where = f.get("field") or next((sid for sid, s, e in offs if s <= f["off"] < e), "?")
                    traces.add("%s|%s|%s|%s|%s" % (kind, where, oc, po, opt))
                    if "then_torn" in f:
                        bump("double")
                else:
                    bump("garbage")
                    traces.add("%s|%s|%s|%s" % (kind, oc, po, opt))
                h.update(("%s|%s|%s|%s" % (fdesc, res.exit, hashlib.sha256(res.stdout.encode()).hexdigest(), po)).encode())
        finally:
            steps.stop()
    bump("max_steps_seen", 0)
    stats["max_steps_seen"] = max(stats.get("max_steps_seen", 0), max_steps)
    if plan.get("big"):
        bump("big_padded_payload_plans")
    seen, uniq = set(), []
    for v in vio:
        if v["key"] not in seen:
            seen.add(v["key"])
            uniq.append(v)
    sample = {"pel_bytes": len(data), "sections": [o[0] for o in offs], "faults": len(faults), "first_faults": faults[:3],
              "opts": plan["opts"], "optimize": opt}
    return {"violations": uniq, "stats": stats, "traces": sorted(traces), "events": events, "evals": evals,
            "digest": h.hexdigest(), "sample": sample}


def evidence_extra(stats, tier):
    return {"step_budget": "%d + %d*len(input)" % (BUDGET_BASE, BUDGET_PER_BYTE)}


def shrink_candidates(plan, violation):
    P = lambda: json.loads(json.dumps(plan))
    if plan.get("only") is None and violation.get("fault"):
        c = P()
        c["only"] = [violation["fault"]]
        yield c
        return
    if plan.get("only") is not None:
        f = plan["only"][0]
        secs = plan["recipe"]["sections"]
        for j in range(len(secs) - 1, -1, -1):
            c = P()
            del c["recipe"]["sections"][j]
            n = len(pelgen.build(c["recipe"]))
            if f.get("off", 0) >= n:
                continue
            if "then_torn" in f and f["then_torn"] > n:
                continue
            yield c
        if plan["opts"] != ["-E"]:
            c = P()
            c["opts"] = ["-E"]
            yield c
        if plan.get("registry"):
            c = P()
            c["registry"] = False
            yield c
