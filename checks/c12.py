"""
C12 — --clean never deletes a PEL whose decoded output was not completely
written.  Fault ENUMERATION: for every plan, a fault-free reference execution
records the I/O event list; then one faulted execution is run for every event
and every fault kind applicable to it (error return, short flush + error,
process death before / after the event).  The invariant is evaluated on the
final state of every execution:

    input absent  =>  its complete output is durable
                      (-j: file bytes == reference bytes and close succeeded;
                       -f: the whole document reached the stdout sink and every
                           flush including the interpreter-exit flush succeeded)
    input present =>  byte-identical to the original
    inputs with no output in the reference (filtered / undecodable) are never removed
"""
import hashlib
import json
import random

from sim import pelgen
from sim.world import World, snapshot, HarnessError
from checks import common

PROPERTY = "C12"
LEVEL = "fault_enumeration"
MODES = ["O0"]
BATCH = 2
PLAN_WATCHDOG_S = 1800
MAX_FAULTED_EXECUTIONS = 12000
TIERS = {"quick": {"runs": 600, "wall": 55}, "thorough": {"runs": 1200, "wall": 1200}}
RULE = ("plan = seeded PEL directory (or single file) + buffer sizes + option set; every I/O event of the "
        "fault-free reference execution is a fault site and one execution is run per (site, applicable fault "
        "kind) [runs of buffered non-draining writes: first, last and seeded others in reduced mode, every "
        "write in full mode]; thorough adds seeded double faults.  distinct_nontrivial counts distinct "
        "abstract traces (mode, buffer class, fault kind @ event kind, position relative to the remove, "
        "which inputs survived, which outputs are complete) over executions in which a fault fired.")
COMPONENTS = {"real": ["pel.peltool.peltool.main() and everything it imports, in-process"],
              "stub": ["output file objects (SimFile: python-level buffer, fault sites)", "stdout (SimStream)",
                       "directory enumeration order", "process death (SimCrash)",
                       "interpreter-exit flush (performed by the harness)"]}
ASSUMPTIONS = ["durable = handed to the OS by a successful flush/close (no fsync modelling; the property says written and closed)",
               "single-threaded peltool; faults are returned at Python-level I/O calls",
               "in-process main() stands in for a real process; exit-time flushing is modelled by the harness"]
PROBES = ["restart_after_fault", "pre_existing_output:partial", "fault:error@close", "fault:crash_after@remove", "fault:error@stdout_flush", "role:filtered", "role:junk",
          "fault:short@close", "fault:error@open_out"]


# ----------------------------------------------------------------------------
def gen_plan(rng, tier, run):
    mode = "json" if rng.random() < 0.6 else "file"
    plan = {"mode": mode,
            # process model: every invocation in a fresh module set (= its own process) or all in one process
            # how paths are spelled on the command line: absolute, relative to the cwd, with a trailing slash
            "path_style": rng.choice(["abs", "abs", "abs", "rel", "slash"]),
            "fresh": rng.random() < 0.12,
            "bufsize": rng.choice([0, 64, 8192, None, None]),
            "stdout_bufsize": rng.choice([0, 8192, None]),
            "order": {"policy": rng.choice(["perm", "asc", "desc"]), "key": rng.randrange(1 << 30)},
            "opts": common.gen_selection(rng),
            "fseed": rng.randrange(1 << 30),
            "enum": "full" if (tier == "thorough" and rng.random() < 0.12) else "reduced",
            "double": (tier == "thorough" and rng.random() < 0.3) or (tier == "quick" and rng.random() < 0.08),
            "files": [], "plugins": {}, "bmc": rng.random() < 0.15,
            # the process may have been started with stdout closed (`peltool ... >&-`)
            "stdout_closed": mode == "file" and rng.random() < 0.08,
            # crash-restart histories: after every faulted execution the same command is run again
            "restart": mode == "json" and rng.random() < 0.25,
            # --file given as a bare relative name while -p points at a directory that holds ANOTHER log of that name
            "p_and_f": mode == "file" and rng.random() < 0.1}
    if rng.random() < 0.25:
        plan["opts"].append("-P")
    n = rng.randint(1, 4) if mode == "json" else (2 if rng.random() < 0.15 else 1)   # file mode: -f may be given twice
    ext = rng.choice([None, None, ".pel"]) if mode == "json" else None
    plan["ext"] = ext
    plan["out"] = rng.choice(["sep", "sep", "same"]) if mode == "json" else None
    if mode == "file" and rng.random() < 0.3:
        plan["opts"].append("-x")
    recipes = [pelgen.gen_pel(rng, max_sections=3) for _ in range(n)]
    names = common.make_names(rng, recipes)
    if n >= 2 and rng.random() < 0.3:
        names[1] = names[0] + rng.choice([".pel", ".1", ".bak", ".tmp", ".tmp", ".json.tmp", ".new", ".part", "~"])      # one name is a prefix of another
    long_name = mode == "json" and rng.random() < 0.06
    for i, (r, nm) in enumerate(zip(recipes, names)):
        f = {"name": nm + (ext if ext and rng.random() < 0.7 else ""), "recipe": r}
        if rng.random() < 0.3:
            data = pelgen.build(r)
            f["junk"] = common.gen_junk(rng, data, pelgen.section_offsets(r), kinds=["torn", "torn", "flip", "lost", "garbage"])
        plan["files"].append(f)
        # third-party parser modules for this PEL's sections, some of whose calls fail
        if rng.random() < 0.35:
            from checks import plug
            for sec in r["sections"]:
                if sec["kind"] in ("ud", "ed"):
                    c = pelgen.section_creator(r, sec)
                    if not (c == "O" and sec["comp"] == 0x2000):
                        m = plug.ud_module(c, sec["comp"])
                        if m not in plug.SHIPPED:
                            plan["plugins"][m] = {"type": "ud", "weights": {"ok": 2, "raise": 2, "none": 1, "importerror": 1}, "salt": rng.randrange(1 << 30)}
                elif sec["kind"] == "src" and r["creator"] != "O":
                    plan["plugins"][plug.src_module(r["creator"])] = {"type": "src", "weights": {"ok": 2, "raise": 1, "none": 1}, "salt": rng.randrange(1 << 30)}
        # left-overs of an earlier run in the output directory: a partial / stale / foreign output for this input
        if mode == "json" and rng.random() < 0.3:
            f["pre_out"] = {"kind": rng.choice(["partial", "partial", "stale", "garbage", "empty"]), "cut": rng.randrange(1, 400),
                            "eid": "%08X" % (r["eid"] if rng.random() < 0.8 else pelgen.gen_id(rng))}
    if long_name:
        # a name at / near NAME_MAX: "<name>.<eid>.json" no longer fits into a directory entry
        f0 = plan["files"][0]
        f0["name"] = (f0["name"] + "_" + "x" * 255)[:rng.choice([255, 255, 250, 241])]
        f0.pop("pre_out", None)
    return plan


def file_bytes(f):
    data = pelgen.build(f["recipe"])
    if f.get("junk"):
        data = common.apply_junk(data, f["junk"])
    return data


def materialise(w, plan, originals):
    import shutil, os
    for d in ("D", "OUT"):
        p = w.path(d)
        if os.path.lexists(p):
            shutil.rmtree(p)
        w.mkdir(d)
    for name, data in originals.items():
        w.put("D/" + name, data)
    outdir = "OUT" if plan.get("out") == "sep" else "D"
    for f in plan["files"]:
        po = f.get("pre_out")
        if po:
            full = json.dumps({"Private Header": {"Entry Id": "0x" + po["eid"]}, "note": "left by an earlier run " * 20}, indent=4)
            body = {"partial": full[:po["cut"]], "stale": full, "garbage": "\x00\x01garbage", "empty": ""}[po["kind"]]
            w.put("%s/%s.%s.json" % (outdir, f["name"], po["eid"]), body.encode())


def argv_of(plan):
    if plan["mode"] == "json":
        a = ["-p", "@/D", "-j", "-c"]
        if plan["out"] == "sep":
            a += ["-o", "@/OUT"]
        if plan.get("ext"):
            a += ["-e", plan["ext"]]
    elif plan.get("p_and_f"):
        a = ["-p", "sub", "-f", plan["files"][0]["name"], "-c"]          # cwd is the directory holding the file
    else:
        a = []
        for f in plan["files"][1:]:
            a += ["-f", "@/D/" + f["name"]]          # an earlier -f (argparse keeps the last one)
        a += ["-f", "@/D/" + plan["files"][0]["name"], "-c"]
    return a + list(plan["opts"])


def run_once(w, plan, originals, faults, reference=False):
    if reference:
        # what "the decoded output" is: the same invocation without --clean, into an empty output directory
        materialise(w, dict(plan, files=[dict(f, pre_out=None) for f in plan["files"]]), originals)
        argv = [a for a in argv_of(plan) if a != "-c"]
    else:
        materialise(w, plan, originals)
        argv = argv_of(plan)
    if plan.get("p_and_f"):
        # the -p directory holds a different log under the same name
        other = pelgen.gen_pel(random.Random(plan["fseed"] + 11), eid=0x0D1FFE12, want_class="serviceable", max_sections=1)
        w.put("D/sub/" + plan["files"][0]["name"], pelgen.build(other))
    res = w.run(argv, order=plan["order"], faults=faults, file_bufsize=plan["bufsize"],
                stdout_bufsize=plan["stdout_bufsize"], stdout_closed=bool(plan.get("stdout_closed")),
                cwd="D" if plan.get("p_and_f") else None)
    snap = w.snapshot()
    return res, snap


def outputs_of(snap, w, plan, name):
    """{relpath: bytes} of the files named <name>.<entry id>.json for input `name`
    (the entry id is a by-construction fact; any hex spelling of it is accepted)"""
    import re
    outdir = "OUT" if plan["out"] == "sep" else "D"
    eid = plan["_eids"].get(name)
    res = {}
    for rel in snap:
        d, _, base = rel.rpartition("/")
        if d != outdir or snap[rel][0] != "f" or not base.startswith(name + "."):
            continue
        m = re.fullmatch(r"\.([0-9A-Fa-f]+)\.json", base[len(name):])
        # a damaged copy may still decode (possibly under another id): any id is accepted for it
        if m and (name in plan["_junk"] or (eid is not None and int(m.group(1), 16) == eid)):
            res[rel] = w.read(rel)
    return res


def fault_sites(ref, plan):
    """[(index, event kind, will_drain)] chosen for enumeration.  Consecutive
    writes to one destination form a run; reduced mode takes the first, the
    last, and seeded members of the run (draining and non-draining ones
    separately); full mode takes every write."""
    rng = random.Random(plan["fseed"])
    sites = []
    run = []          # [(idx, kind, drains)] of the current write run
    run_key = None

    def flush_run():
        if not run:
            return
        if plan["enum"] == "full" or len(run) <= 12:
            sites.extend(run)
        else:
            keep = {run[0][0], run[-1][0]}
            dr = [r[0] for r in run if r[2]]
            nd = [r[0] for r in run if not r[2]]
            keep |= set(rng.sample(dr, min(5, len(dr))))
            keep |= set(rng.sample(nd, min(5, len(nd))))
            sites.extend(r for r in run if r[0] in keep)
        run.clear()

    for idx, kind, rel, info, count in ref.events:
        if kind in ("write", "stdout_write"):
            if run_key != (kind, rel):
                flush_run()
                run_key = (kind, rel)
            drains = bool(info[1])
            fdl = len(info) > 2 and info[2] == "fd"
            run.extend((i, kind, drains, fdl) for i in range(idx, idx + count))
        else:
            flush_run()
            run_key = None
            sites.append((idx, kind, False, False))
    flush_run()
    return sites


ERR_FOR = {"open_out": ["ENOSPC", "EACCES"], "write": ["ENOSPC", "EIO"], "flush": ["ENOSPC"], "close": ["ENOSPC", "EIO"],
           "stdout_write": ["EPIPE", "ENOSPC"], "stdout_flush": ["EPIPE", "ENOSPC"], "remove": ["EACCES"]}


def faults_for(site, plan, rng):
    idx, kind, drains, fdlevel = site
    out = []
    if fdlevel and kind == "write":
        # legal short write at file-descriptor level: fewer bytes accepted, no error
        out.append({"at": idx, "kind": "short_ok", "keep": rng.choice([1, 17, 100, 1000])})
    if kind in ERR_FOR:
        errs = ERR_FOR[kind]
        out.append({"at": idx, "kind": "error", "errno": errs[rng.randrange(len(errs))]})
        if kind in ("flush", "close", "stdout_flush") or drains:
            out.append({"at": idx, "kind": "short", "errno": errs[0], "keep": rng.choice([0, 1, 17, 100, 1000])})
    out.append({"at": idx, "kind": "crash_before"})
    out.append({"at": idx, "kind": "crash_after"})
    return out


def check_state(plan, w, originals, ref_outputs, ref_stdout, res, snap, faults, remove_pos):
    """returns list of violations for one execution"""
    vios = []
    fk = "+".join("%s@%s" % (f["kind"], f["event"]) for f in res.fired) or "none"
    removed_pattern = ""
    for name, data in originals.items():
        rel = "D/" + name
        if rel in snap:
            removed_pattern += "P"
            cur = w.read(rel)
            if cur != data:
                vios.append({"class": "input-modified", "key": "C12:%s:input-modified" % plan["mode"],
                             "detail": "input %s changed (%d -> %d bytes) after faults %s" % (name, len(data), len(cur), fk)})
            continue
        removed_pattern += "R"
        # input is gone: its complete output must be durable
        where = "fault-free"
        if res.fired:
            f0 = res.fired[0]
            rp = remove_pos.get(name)
            where = "fault-without-remove-in-reference" if rp is None else (
                "fault-at-or-after-remove" if int(f0["at"]) >= rp else "fault-before-remove")
        if plan["mode"] == "json":
            want = ref_outputs.get(name)
            have = outputs_of(snap, w, plan, name)
            complete = want is not None and any(b == want for b in have.values())
            # ordering, not only state: "if opening, writing, flushing or closing the output fails at any point, the
            # original file is still present" - also when every byte happened to reach the file before the failure
            failed_out = [f for f in res.fired if f["kind"] in ("error", "short") and f.get("event") in ("open_out", "write", "flush", "close")
                          and f.get("path") in have]
            if complete and failed_out:
                vios.append({"class": "input-removed-although-output-failed",
                             "key": "C12:json:removed-although-%s-failed" % failed_out[0]["event"],
                             "detail": "input %s was removed although the %s of its output %s failed with %s; faults=%s; argv=%s" % (
                                 name, failed_out[0]["event"], failed_out[0].get("path"), failed_out[0].get("errno"),
                                 json.dumps(faults), argv_of(plan)),
                             "faults": faults})
            if not complete:
                role = "selected" if want is not None else ("junk" if name in plan["_junk"] else "filtered")
                vios.append({"class": "input-removed-without-complete-output",
                             "key": "C12:json:%s:%s" % (role, where),
                             "detail": "input %s was removed but its output is %s; faults=%s; argv=%s" % (
                                 name, ("absent" if not have else "incomplete (%s of %s bytes)" % (
                                     [len(b) for b in have.values()], len(want) if want else None)),
                                 json.dumps(faults), argv_of(plan)),
                             "faults": faults})
        else:
            own = ref_outputs.get(name) or ""
            complete = bool(own) and own in res.stdout_delivered       # this input's own complete document reached the sink
            ref_stdout = own
            if not complete:
                role = "selected" if ref_stdout else ("junk" if name in plan["_junk"] else "filtered")
                vios.append({"class": "input-removed-without-complete-output",
                             "key": "C12:file:%s:%s" % (role, where),
                             "detail": "input %s was removed but stdout received %d of %d bytes (exit flush error: %s, "
                                       "crashed: %s); faults=%s; argv=%s" % (
                                           name, len(res.stdout_delivered), len(ref_stdout or ""), res.exit_flush_error,
                                           res.crashed, json.dumps(faults), argv_of(plan)),
                             "faults": faults})
    return vios, fk, removed_pattern


def execute(plan):
    stats = {}
    traces = set()

    def bump(k, n=1):
        stats[k] = stats.get(k, 0) + n

    originals = {f["name"]: file_bytes(f) for f in plan["files"]}
    plan["_junk"] = [f["name"] for f in plan["files"] if f.get("junk")]
    plan["_eids"] = {f["name"]: f["recipe"]["eid"] for f in plan["files"] if not f.get("junk")}
    violations = []
    evals = events = 0
    h = hashlib.sha256()
    with World(plugins=plan.get("plugins") or None, bmc="D" if plan.get("bmc") and plan["mode"] == "json" else None) as w:
        w.long_opts = bool(plan.get("long_opts"))
        if w.bmc:
            bump("environment:bmc")
        if plan.get("plugins"):
            bump("plans_with_fake_plugins")
        if plan.get("stdout_closed"):
            bump("stdout_closed_at_startup")
        if any(len(f["name"]) > 240 for f in plan["files"]):
            bump("name_near_NAME_MAX")
        w.fresh_per_run = bool(plan.get("fresh"))
        w.path_style = plan.get("path_style", "abs")
        w.rel_dot = bool(plan.get("fresh"))
        if w.path_style != "abs":
            bump("path_style:" + w.path_style)
        bump("process_model:fresh" if w.fresh_per_run else "process_model:shared")
        ref0, ref0_snap = run_once(w, plan, originals, None, reference=True)
        # no fault, no --clean: every input must still be there, byte for byte (also when the tool gave up)
        gone0 = [n for n in originals if ("D/" + n) not in ref0_snap]
        changed0 = [n for n in originals if ("D/" + n) in ref0_snap and ref0_snap["D/" + n][0] == "f" and w.read("D/" + n) != originals[n]]
        if gone0 or changed0:
            vio0 = {"class": "removed-without-clean", "key": "C12:%s:removed-without-clean" % plan["mode"],
                    "detail": "inputs %s disappeared / %s were modified although --clean was not given and nothing failed: argv=%s exc=%s" % (
                        gone0, changed0, ref0.argv, ref0.exc)}
            return {"violations": [vio0], "stats": stats, "traces": [], "events": 0, "evals": 1, "digest": ref0.digest}
        if ref0.crashed or ref0.exc:
            raise HarnessError("reference execution did not complete: %s %s" % (ref0.exc, ref0.stderr[-500:]))
        ref_outputs = {}
        for name in originals:
            outs = outputs_of(ref0_snap, w, plan, name) if plan["mode"] == "json" else {}
            if len(outs) == 1:
                ref_outputs[name] = next(iter(outs.values()))
        ref_stdout = ref0.stdout_delivered if plan["mode"] == "file" else None
        if plan["mode"] == "file":
            # what "the document printed for that same file" is: -f on that file alone, without --clean
            for f in plan["files"]:
                materialise(w, dict(plan, files=[dict(x, pre_out=None) for x in plan["files"]]), originals)
                rr = w.run(["-f", "@/D/" + f["name"]] + list(plan["opts"]), stdout_bufsize=plan["stdout_bufsize"],
                           stdout_closed=bool(plan.get("stdout_closed")))
                if plan.get("p_and_f"):
                    bump("p_and_relative_f")
                ref_outputs[f["name"]] = rr.stdout_delivered
            if len(plan["files"]) > 1:
                bump("file_mode_two_inputs")
        if any(("D/" + n) not in ref0_snap for n in originals):
            vio0 = {"class": "removed-without-clean", "key": "C12:%s:removed-without-clean" % plan["mode"],
                    "detail": "an input disappeared although --clean was not given: argv=%s" % ref0.argv}
            return {"violations": [vio0], "stats": stats, "traces": [], "events": 0, "evals": 1, "digest": ref0.digest}
        # fault-free execution with --clean: its event list is the set of fault sites
        ref, ref_snap = run_once(w, plan, originals, None)
        evals += 2
        events += ref.events[-1][0] + 1 if ref.events else 0
        if ref.crashed or ref.exc:
            raise HarnessError("fault-free execution did not complete: %s %s" % (ref.exc, ref.stderr[-500:]))
        remove_pos = {}
        for idx, kind, rel, info, count in ref.events:
            if kind == "remove" and rel and rel.startswith("D/"):
                remove_pos[rel[2:]] = idx
        for f in plan["files"]:
            role = "junk" if f.get("junk") else ("selected" if ref_outputs.get(f["name"]) else "filtered")
            bump("role:" + role)
        v, fk, pat = check_state(plan, w, originals, ref_outputs, ref_stdout, ref, ref_snap, [], remove_pos)
        violations += v
        h.update(ref.digest.encode())
        h.update(json.dumps(sorted(ref_snap.items())).encode())
        traces.add("ref|%s|%s|%s|%s" % (plan["mode"], plan["bufsize"], pat, len(remove_pos)))
        for f in plan["files"]:
            if f.get("pre_out"):
                bump("pre_existing_output:" + f["pre_out"]["kind"])

        if plan.get("only_faults") is not None:
            fault_lists = plan["only_faults"]
        else:
            rng = random.Random(plan["fseed"] + 1)
            sites = fault_sites(ref, plan)
            fault_lists = []
            for s in sites:
                for f in faults_for(s, plan, rng):
                    fault_lists.append([f])
            bump("sites", len(sites))
            if plan.get("double"):
                # second fault among later events (event numbering is only
                # comparable to the reference up to the first fault)
                for _ in range(min(60, len(fault_lists))):
                    a = rng.choice(fault_lists)[0]
                    if a["kind"].startswith("crash"):
                        continue
                    later = [x for x in sites if x[0] > a["at"]]
                    if not later:
                        continue
                    b = rng.choice(faults_for(rng.choice(later), plan, rng))
                    fault_lists.append([a, b])
        if len(fault_lists) > MAX_FAULTED_EXECUTIONS:
            # keep a plan within minutes: a seeded sample of the enumeration (counted, so that evidence says so)
            keep = sorted(random.Random(plan["fseed"] + 2).sample(range(len(fault_lists)), MAX_FAULTED_EXECUTIONS))
            bump("enumeration_sampled_down")
            fault_lists = [fault_lists[i] for i in keep]
        for faults in fault_lists:
            res, snap = run_once(w, plan, originals, faults)
            evals += 1
            events += res.events[-1][0] + 1 if res.events else 0
            if res.exc:
                bump("uncaught:" + res.exc.split(":")[0])
            v, fk, pat = check_state(plan, w, originals, ref_outputs, ref_stdout, res, snap, faults, remove_pos)
            for f in res.fired:
                bump("fault:%s@%s" % (f["kind"], f["event"]))
            if not res.fired:
                bump("fault_configured_not_fired")
            else:
                f0 = res.fired[0]
                rp = min(remove_pos.values()) if remove_pos else None
                rel = "noremove" if rp is None else ("pre" if f0["at"] < rp else ("at" if f0["at"] == rp else "post"))
                traces.add("%s|%s|%s|%s|%s|%s" % (plan["mode"], plan["bufsize"], fk, rel, pat, res.exit))
            violations += v
            h.update(res.digest.encode())
            h.update(json.dumps(sorted(snap.items())).encode())
            if plan.get("restart") and res.fired and plan["mode"] == "json":
                # crash / failure, then the operator simply runs the same command again on whatever was left behind
                # (partial outputs included): the invariant must still hold afterwards
                res2 = w.run(argv_of(plan), order=plan["order"], faults=None, file_bufsize=plan["bufsize"],
                             stdout_bufsize=plan["stdout_bufsize"])
                snap2 = w.snapshot()
                evals += 1
                bump("restart_after_fault")
                v2, _, pat2 = check_state(plan, w, originals, ref_outputs, ref_stdout, res2, snap2, faults, remove_pos)
                for x in v2:
                    x["key"] += ":after-restart"
                    x["detail"] = "after a restart (same command, no faults) following " + x["detail"]
                violations += v2
                traces.add("restart|%s|%s|%s->%s" % (plan["bufsize"], fk, pat, pat2))
                h.update(res2.digest.encode())
            if len(violations) > 40:
                break
    # keep one violation per key
    seen, uniq = set(), []
    for v in violations:
        if v["key"] not in seen:
            seen.add(v["key"])
            uniq.append(v)
    sample = {"argv": argv_of(plan), "files": {f["name"]: ("junk:" + f["junk"]["kind"]) if f.get("junk") else "pel"
                                               for f in plan["files"]},
              "bufsize": plan["bufsize"], "reference_events": [[e[0], e[1], e[2], e[4]] for e in ref.events][:40],
              "faulted_executions": len(fault_lists)}
    return {"violations": uniq, "stats": stats, "traces": sorted(traces), "events": events, "evals": evals,
            "digest": h.hexdigest(), "sample": sample}


def shrink_candidates(plan, violation):
    if plan.get("only_faults") is None:
        # structural reductions while still enumerating
        if len(plan["files"]) > 1 and plan["mode"] == "json":
            for i in range(len(plan["files"])):
                c = json.loads(json.dumps(plan))
                del c["files"][i]
                yield c
        for i, f in enumerate(plan["files"]):
            secs = f["recipe"]["sections"]
            for j in range(len(secs) - 1, -1, -1):
                c = json.loads(json.dumps(plan))
                del c["files"][i]["recipe"]["sections"][j]
                if c["files"][i].get("junk", {}).get("kind") in ("torn", "flip"):
                    n = len(pelgen.build(c["files"][i]["recipe"]))
                    if c["files"][i]["junk"]["off"] >= n:
                        continue
                yield c
        if plan["order"]["policy"] != "asc":
            c = json.loads(json.dumps(plan))
            c["order"] = {"policy": "asc", "key": 0}
            yield c
        if plan["opts"]:
            for i in range(len(plan["opts"])):
                if plan["opts"][i] in ("-S",) or (i and plan["opts"][i - 1] == "-S"):
                    continue
                c = json.loads(json.dumps(plan))
                del c["opts"][i]
                yield c
        if violation.get("faults") is not None:
            c = json.loads(json.dumps(plan))
            c["only_faults"] = [violation["faults"]]
            c["double"] = False
            yield c
    else:
        fl = plan["only_faults"][0]
        if len(fl) > 1:
            for i in range(len(fl)):
                c = json.loads(json.dumps(plan))
                c["only_faults"] = [fl[:i] + fl[i + 1:]]
                yield c
