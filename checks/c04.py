"""
C04 — user data is rendered from its content or preserved byte-for-byte as a
hex dump.

Decided half (simulation): whenever the *environment of the run* leaves a
section without a decoder – unknown section id, no module for
(creator, component), module failing at import, -P, plugin call raising /
returning None / raising ImportError – the section still appears and its hex
dump gives back exactly the payload bytes (plus an error note when a parser
failed).  The simulator owns every one of those states (plugin population and
per-call fault tables served through the real import machinery).

Sampled half (stated honestly): built-in JSON / text sections of BMC component
0x2000 are pure functions of the payload; the simulator only samples them.
"""
import hashlib
import json
import random

from sim import pelgen, world
from sim.world import World
from checks import common, plug

PROPERTY = "C04"
LEVEL = "exploration"
MODES = ["O0"]
TIERS = {"quick": {"runs": 2500, "wall": 55}, "thorough": {"runs": 30000, "wall": 1500}}
RULE = ("plan = 2..5 seeded PELs (payload sizes 1..65527 with boundary sizes 15/16/17 and occasional maxima) whose "
        "UD/ED/unknown sections meet a seeded decoder environment: builtin formats, fake plugins with per-call fault "
        "tables (ok/raise/None/ImportError/KeyError), modules absent or failing at import, -P; decoded with -f and "
        "-a in one long-lived module set.  distinct_nontrivial counts distinct (decoder state, behaviour, payload "
        "size class, section kind) tuples observed on sections without a working decoder.")
COMPONENTS = {"real": ["pel.peltool.peltool.main() in-process", "parse_user_data, user_data, ext_user_data, default, hexdump"],
              "stub": ["third-party parser modules (fake)", "stdout capture"]}
ASSUMPTIONS = ["plugins returning non-dict JSON or non-JSON text, zero-length payloads and invalid UTF-8 in built-in formats are not generated (status under the property unclear)",
               "the built-in JSON/text half is a pure function of the payload and is only sampled, not decided, by this technique",
               "a hex dump counts as recoverable if either a fixed-column reader or the repository's own pel.hexdump.parse returns the payload"]
PROBES = ["state:raw", "state:absent", "state:disabled", "state:builtin-json", "state:builtin-text", "state:builtin-hex",
          "behaviour:raise", "behaviour:none", "behaviour:importerror", "state:import-failed", "payload_max", "payload_boundary"]


def gen_plan(rng, tier, run):
    pels, plugins = plug.gen_world(rng, fault_rate=rng.choice([1, 2, 3, 4]))
    # vary payload sizes of sections that are hex-dumped
    for p in pels:
        for s in p["recipe"]["sections"]:
            if s["kind"] in ("ud", "ed", "raw") and "expect_json" not in s and "expect_text" not in s and not s.get("badjson") \
                    and rng.random() < 0.5:
                c = rng.random()
                if c < 0.5:
                    n = rng.choice([1, 2, 15, 16, 17, 31, 32, 33, 255, 256])
                elif c < 0.95:
                    n = rng.randint(300, 5000)
                else:
                    n = 65527 - (4 if s["kind"] == "ed" else 0)
                r2 = random.Random(rng.randrange(1 << 30))
                body = bytes(r2.randrange(256) for _ in range(n)) if n < 6000 else (bytes(range(256)) * 256)[:n]
                pad = rng.random()
                if pad < 0.2:
                    # NUL padding / a zero trailer at the end of the payload (pad-count words, alignment), or nothing but zeros
                    k = min(n, rng.choice([1, 2, 4, 8]))
                    body = body[:n - k] + bytes(k)
                elif pad < 0.25:
                    body = bytes(n)
                s["payload"] = body.hex()
    return {"pels": pels, "plugins": plugins, "skip_plugins": rng.random() < 0.25,
            # the encoding of the terminal / pipe peltool prints to (LANG=C, PYTHONIOENCODING=...)
            "stdout_encoding": rng.choice(["utf-8", "utf-8", "ascii", "latin-1"]),
            "order": {"policy": rng.choice(["perm", "asc", "desc"]), "key": rng.randrange(1 << 30)}}


def V(cls, detail):
    return {"class": cls, "key": "C04:" + cls, "detail": detail}


def size_class(n):
    return "1" if n == 1 else ("<16" if n < 16 else ("16" if n == 16 else ("17-32" if n <= 32 else ("<300" if n < 300 else ("<6000" if n < 6000 else "max")))))


def execute(plan):
    stats = {}
    traces = set()

    def bump(k, n=1):
        stats[k] = stats.get(k, 0) + n

    class _Vio(list):
        def append(self, v):
            if all(x["key"] != v["key"] for x in self):
                list.append(self, v)
    vio = _Vio()
    plugins, skip = plan["plugins"], plan["skip_plugins"]
    events = 0
    h = hashlib.sha256()
    extra = ["-P"] if skip else []
    with World(plugins=plugins) as w:
        w.long_opts = bool(plan.get("long_opts"))
        common.put_store(w, "D", plan["pels"])
        parse = plug.repo_hexdump_parse()
        results = []
        for p in plan["pels"]:
            r = w.run(["-f", "@/D/" + p["name"], "-E"] + extra, stdout_encoding=plan.get("stdout_encoding", "utf-8"))
            results.append(("f", [p], r))
        r = w.run(["-p", "@/D", "-a", "-E"] + extra, order=plan["order"], stdout_encoding=plan.get("stdout_encoding", "utf-8"))
        results.append(("a", sorted(plan["pels"], key=lambda p: p["name"]), r))
    for kind, pels, r in results:
        events += len(r.events)
        h.update(r.stdout.encode())
        if r.exc or r.exit != 0:
            vio.append(V("bad-exit", "%s: exit=%r exc=%r stderr=%s" % (r.argv, r.exit, r.exc, r.stderr[-300:])))
            continue
        ok, j = common.parse_json_stream(r.stdout) if r.stdout else (False, None)
        docs = {}
        if kind == "f":
            if ok and isinstance(j, dict):
                docs[pels[0]["name"]] = j
        elif ok and isinstance(j, list):
            for d in j:
                try:
                    eid = int(d["Private Header"]["Entry Id"], 16)
                except Exception:
                    continue
                for p in pels:
                    if p["recipe"]["eid"] == eid:
                        docs[p["name"]] = d
        for p in pels:
            rec = p["recipe"]
            doc = docs.get(p["name"])
            if doc is None:
                vio.append(V("pel-not-decoded", "%s shows no document for %s: every section and payload is lost; stderr=%s" % (r.argv, p["name"], r.stderr[-300:])))
                continue
            keys = plug.section_keys(doc)
            if len(keys) != len(rec["sections"]):
                vio.append(V("section-missing", "%s: %s has %d sections, document shows %s" % (r.argv, p["name"], len(rec["sections"]), keys)))
                continue
            for k, s in zip(keys, rec["sections"]):
                state = plug.decoder_state(rec, s, plugins, skip)
                if state is None:
                    continue
                sec = doc[k]
                payload = bytes.fromhex(s["payload"])
                st = state.split(":")[0]
                bump("state:" + st)
                if len(payload) >= 65000:
                    bump("payload_max")
                if len(payload) in (15, 16, 17):
                    bump("payload_boundary")
                ctx = "%s: section %r of %s (state %s, %d payload bytes)" % (r.argv, k, p["name"], state, len(payload))
                if not isinstance(sec, dict):
                    vio.append(V("section-malformed", ctx + ": %r" % (sec,)))
                    continue
                if state == "builtin-badjson":
                    # JSON sub-type whose text is not JSON: the text (not the raw payload) is hex-dumped; the section
                    # must still be there with a dump of that text
                    if payload not in plug.recover(sec.get("Data"), parse):
                        vio.append(V("payload-not-recoverable", ctx + ": invalid JSON text is neither shown nor dumped: %s" % _short(sec)))
                    continue
                if state == "builtin-json":
                    want = s["expect_json"]
                    if isinstance(want, dict):
                        # every member of the stored object appears with its value; nothing else is added
                        good = all(k2 in sec and sec[k2] == v2 and type(sec[k2]) is type(v2) for k2, v2 in want.items()) and \
                            set(plug.body(sec, plug.header_keys(doc))) <= set(want)
                    else:
                        good = "Data" in sec and sec["Data"] == want and type(sec["Data"]) is type(want)
                    if not good:
                        vio.append(V("builtin-json-mismatch", ctx + ": expected %r, section is %r" % (want, _short(sec))))
                    continue
                if state == "builtin-text":
                    if sec.get("Data") != s["expect_text"]:
                        vio.append(V("builtin-text-mismatch", ctx + ": expected lines %r, got %r" % (s["expect_text"], sec.get("Data"))))
                    continue
                behaviour = None
                if state == "fake":
                    m = plug.ud_module(pelgen.section_creator(rec, s), s["comp"])
                    behaviour = world.choose_behaviour(plugins[m], "parseUDToJson", (s["subtype"], s["ver"], payload))
                    bump("behaviour:" + behaviour)
                    if behaviour in ("ok", "list"):
                        continue            # a working decoder: C18's business
                if state == "shipped":
                    # shipped plugins (real code): sub-types they have no decoder for must still be preserved
                    m = plug.ud_module(pelgen.section_creator(rec, s), s["comp"])
                    bump("shipped:" + m.rsplit(".", 1)[-1])
                    if m == "udparsers.m2c00.m2c00" and s["subtype"] in (72, 73, 84):
                        continue
                    if m == "udparsers.oe500.oe500" and s["subtype"] in (1, 2, 3, 4, 5):
                        if isinstance(sec.get("Error"), str) and not plug.payload_recoverable(sec, payload, parse):
                            vio.append(V("payload-not-recoverable", ctx + ": the shipped parser failed (%s) and the payload is not dumped" % sec["Error"][:80]))
                        continue
                    state = state + ":unsupported-subtype"
                # ---- no working decoder: payload must be recoverable
                if not plug.payload_recoverable(sec, payload, parse):
                    got = plug.recover(sec.get("Data"), parse)
                    vio.append(V("payload-not-recoverable", ctx + ": hex dump gives back %s bytes; section: %s" % (
                        [len(g) for g in got], _short(sec))))
                needs_note = behaviour in ("raise", "none", "keyerror", "importerror", "modulenotfound", "raise_noargs") or \
                    state in ("import-failed:SyntaxError", "import-failed:ValueError")
                if needs_note and not (isinstance(sec.get("Error"), str) and sec["Error"]):
                    vio.append(V("failed-parser-no-error-note", ctx + ": parser %s but no error note: %s" % (behaviour or state, _short(sec))))
                traces.add("%s|%s|%s|%s" % (state, behaviour, size_class(len(payload)), s["kind"]))
    sample = {"pels": [{"name": p["name"], "sections": [(s["id"], plug.decoder_state(p["recipe"], s, plugins, skip), len(s.get("payload", "")) // 2)
                                                          for s in p["recipe"]["sections"]]} for p in plan["pels"]],
              "skip_plugins": skip, "plugins": sorted(plugins)}
    return {"violations": list(vio), "stats": stats, "traces": sorted(traces), "events": events, "evals": len(results),
            "digest": h.hexdigest(), "sample": sample}


def _short(x, n=400):
    s = repr(x)
    return s if len(s) <= n else s[:n] + "..."


def shrink_candidates(plan, violation):
    from checks import c18
    for c in c18.shrink_candidates(dict(plan, registry=None), violation):
        c.pop("registry", None)
        yield c
    P = lambda: json.loads(json.dumps(plan))
    for i, p in enumerate(plan["pels"]):
        for j, s in enumerate(p["recipe"]["sections"]):
            if s["kind"] in ("ud", "ed", "raw") and len(s["payload"]) > 64 and "expect_json" not in s and "expect_text" not in s and not s.get("badjson"):
                c = P()
                c["pels"][i]["recipe"]["sections"][j]["payload"] = s["payload"][:len(s["payload"]) // 4 * 2]
                yield c
