"""
C10 — look-ups by platform log id, BMC id, entry id and SRC return exactly
the matches.

Simulation: a *store* (PEL directory) with a reference model (file name ->
facts chosen by the generator) driven through a seeded history: the tool's own
mutating operations (--delete, --delete-all, --json into the PEL directory –
which drops <file>.<eid>.json by-products beside the PELs –, --json --clean)
and "the BMC writes a new PEL" steps, interleaved with look-ups.  Every
invocation gets its own readdir order from SimFS (uniform permutation,
ascending, descending, by-product-first).  Oracle: the reference model.
"""
import hashlib
import json
import os

from sim import pelgen
from sim.world import World
from checks import common

PROPERTY = "C10"
LEVEL = "exploration"
MODES = ["O0"]
TIERS = {"quick": {"runs": 5000, "wall": 55}, "thorough": {"runs": 40000, "wall": 1500}}
RULE = ("plan = seeded store (1..7 PELs of all classes, id magnitudes small/mid/typical/max, shared PLIDs, "
        "reference codes from a pool with common prefixes) + history of 4..12 operations (look-ups --plid/--bmc-id/"
        "-i/--src/--src-exclude in every id spelling, hits, one-nibble near misses and absent ids; mutations -d, -D, "
        "-j, -j -c, BMC adds a PEL) each with a seeded readdir order.  distinct_nontrivial counts distinct abstract "
        "traces (sequence of (operation, argument class, readdir class, result size class)) among histories "
        "containing at least one state-changing operation before a look-up.")
COMPONENTS = {"real": ["pel.peltool.peltool.main() in-process"],
              "stub": ["directory enumeration order (SimFS)", "stdout capture", "the BMC adding PEL files"]}
ASSUMPTIONS = ["file names follow the BMC convention <bcd time>_<EID> and no name contains the 8-digit id of another file",
               "--src-exclude is issued together with -E and only on stores where every PEL has a primary SRC (the code applies the default class filter to it; whether the property's last sentence covers it is arguable, so exactness is tested without taking a side)",
               "a PEL without primary SRC has no reference code and is expected in no --src result"]
PROBES = ["listing_fault_fired", "damaged_file_in_store", "nested_pel", "symlinked_pel", "lookup:plid", "lookup:bmc", "lookup:id", "lookup:src", "lookup:srcx", "id_small", "id_mid", "id_max", "hidden_hit",
          "nonserviceable_hit", "json_sibling_listed_first", "near_miss", "after_delete", "after_json", "shared_plid_hit", "hex"]


def mag(v):
    return "small" if v < 0x10 else ("mid" if v < 0x10000000 else ("max" if v >= 0x90000000 else "typ"))


def spell(rng, v):
    return rng.choice(["%08X", "%08X", "0x%08X", "%08x", "0x%08x", "0X%08X"]) % v


def gen_plan(rng, tier, run):
    all_src = rng.random() < 0.7
    n = rng.randint(1, 7)
    magc = rng.choice([None, None, "small", "mid", "typical", "max"])
    files = common.gen_store(rng, n, style="bmc", refpool=common.REFCODE_POOL if rng.random() < 0.8 else None,
                             with_src=True if all_src else None, max_sections=3, id_magnitude=magc, dup_plid=0.35,
                             ud_targets=[("O", 0x2000)] if rng.random() < 0.5 else None,
                             links=rng.choice([0, 0, 0.3]))
    extra = common.gen_store(rng, 4, style="bmc", refpool=common.REFCODE_POOL, with_src=True if all_src else None,
                             max_sections=2, id_magnitude=magc, dup_plid=0)
    used = {f["recipe"]["eid"] for f in files}
    extra = [e for e in extra if e["recipe"]["eid"] not in used and not used.add(e["recipe"]["eid"])]
    # names must stay unambiguous across files+extra
    allf = files + extra
    for i, f in enumerate(allf):
        for j, g in enumerate(allf):
            if i != j and ("%08X" % g["recipe"]["eid"]) in f["name"]:
                f["name"] = "pel_%08X" % f["recipe"]["eid"]
    # PELs below the PEL directory (archive/ ...): never part of any look-up result
    nested = []
    if rng.random() < 0.35:
        for f in common.gen_store(rng, rng.randint(1, 3), style="bmc", refpool=common.REFCODE_POOL, with_src=True, max_sections=2,
                                  id_magnitude=magc, dup_plid=0):
            if f["recipe"]["eid"] not in used and not any(("%08X" % f["recipe"]["eid"]) in g["name"] for g in files + extra):
                used.add(f["recipe"]["eid"])
                f["sub"] = rng.choice(["archive", "archive", "old/deeper"])
                nested.append(f)
    # damaged logs lying in the store (truncated copies): never a match for anything
    damaged = []
    if rng.random() < 0.3 and files:
        for i in range(rng.randint(1, 2)):
            src = rng.choice(files)
            data = pelgen.build(src["recipe"])
            damaged.append({"name": rng.choice(["00", "zz", src["name"][:20] + "~"]) + "_trunc%d" % i, "recipe": src["recipe"],
                            # cut inside the headers or inside the first section after them: neither the summary modes nor
                            # the full decode can make anything of it
                            "junk": {"kind": "torn", "off": min(rng.choice([0, 30, 47, 60, 71, 72, 80, 100, 140]),
                                                                 (pelgen.section_offsets(src["recipe"]) + [("", 0, 72)])[2][2] - 1)}})
    plan = {"files": files, "extra": extra, "all_src": all_src, "nested": nested, "damaged": damaged,
            # the PEL directory's own name (glob metacharacters, blanks, an id) and the terminal's encoding
            "dname": rng.choice(["D"] * 6 + ["pels[node0]", "run-1[a-z]", "logs*", "what?", "a b", "%08X" % pelgen.gen_id(rng),
                                              # (a case directory named after one of the logs it holds)
                                              rng.choice(["case_%08X", "%08X"]) % rng.choice(files)["recipe"]["eid"]]),
            "stdout_encoding": rng.choice(["utf-8", "utf-8", "utf-8", "ascii", "latin-1"]),
            # environment: on the BMC (built-in default directory, no -p) or on a workstation
            "bmc": rng.random() < 0.2,
            # process model: every invocation in a fresh module set (= its own process) or all in one process
            # how paths are spelled on the command line: absolute, relative to the cwd, with a trailing slash
            "path_style": rng.choice(["abs", "abs", "abs", "rel", "slash"]),
            "fresh": rng.random() < 0.4,
            "exclude": rng.sample(common.REFCODE_POOL, rng.randint(0, 5)) + ["B1234567"], "ops": []}
    pool = list(files)
    nops = rng.randint(4, 12)
    for k in range(nops):
        order = {"policy": rng.choice(["perm", "perm", "perm", "asc", "desc", "json_first", "json_last"]), "key": rng.randrange(1 << 30)}
        c = rng.random()
        if c < 0.68:
            kind = rng.choice(["plid", "plid", "bmc", "id", "id", "src", "src"] + (["srcx"] if all_src else []))
            op = {"op": kind, "order": order, "flags": [x for x in ("-P", "-r") if rng.random() < 0.15],
                  "hex": rng.random() < 0.12}
            if rng.random() < 0.03:
                # the directory cannot be listed at this moment (permissions / I/O error)
                op["faults"] = [{"on": "walk", "nth": 0, "kind": "error", "errno": rng.choice(["EACCES", "EIO"])}]
            if kind != "srcx" and rng.random() < 0.15:
                # a look-up names its PELs by id / code: class and severity options given with it must not hide a match
                op["flags"] += rng.choice([["-O", "-S", "Predictive"], ["-H"], ["-N", "-O"], ["-s"], ["-O", "-S", "Informational", "Critical"],
                                           ["-t", "-O"], ["-S", "Recovered"]])
            tgt = rng.choice(pool)["recipe"] if pool else rng.choice(allf)["recipe"]
            how = rng.choice(["hit", "hit", "hit", "near", "absent"])
            if plan["nested"] and rng.random() < 0.25:
                tgt, how = rng.choice(plan["nested"])["recipe"], "nested"     # exists only below a sub-directory
            op["how"] = how
            if kind in ("plid", "id"):
                v = tgt["plid"] if kind == "plid" else tgt["eid"]
                if how == "near":
                    v ^= 1 << (4 * rng.randrange(8) + rng.randrange(4))
                elif how == "absent":
                    v = pelgen.gen_id(rng)
                if kind == "id" and how != "hit":
                    # -i matches on file names: an id that is not stored must not occur in any name by accident
                    # (e.g. inside a timestamp)
                    for _ in range(20):
                        if not any(("%08X" % v) in f["name"] for f in allf):
                            break
                        v = pelgen.gen_id(rng, "typical")
                op["arg"] = spell(rng, v)
            elif kind == "bmc":
                v = tgt["bmc_id"]
                if how == "near":
                    v = v * 10 + rng.randrange(10) if rng.random() < 0.5 else max(1, v // 10)
                elif how == "absent":
                    v = rng.randrange(1, 10 ** 7)
                op["arg"] = str(v)
            elif kind == "src":
                ps = [s for s in tgt["sections"] if s["kind"] == "src" and s["id"] == "PS"]
                code = ps[0]["ascii"].strip() if ps else rng.choice(common.REFCODE_POOL)
                if how in ("hit", "nested"):
                    op["arg"] = rng.choice([code, code[:2], code[:4], code[:6], code[2:6], code[4:], code[1:7]])
                elif how == "near":
                    i = rng.randrange(len(code))
                    op["arg"] = code[:i] + rng.choice("GXZ") + code[i + 1:]
                else:
                    op["arg"] = rng.choice(["ZZ", "BD8D9999", "0000000", "QQQQQQQQ"])
        elif c < 0.76 and extra:
            op = {"op": "add", "file": extra.pop(0), "order": order}
            pool.append(op["file"])
        elif c < 0.86:
            tgt = rng.choice(pool)["recipe"] if pool else rng.choice(allf)["recipe"]
            op = {"op": "del", "arg": spell(rng, tgt["eid"] if rng.random() < 0.8 else pelgen.gen_id(rng)), "order": order}
        elif c < 0.88:
            op = {"op": "delall", "order": order}
        elif c < 0.97:
            op = {"op": "json", "order": order, "opts": rng.choice([[], ["-E"], ["-E"], ["-H"]])}
        else:
            op = {"op": "jsonc", "order": order, "opts": rng.choice([[], ["-E"]])}
        plan["ops"].append(op)
    return plan


def argv_of(op, dname="D"):
    return [("@/" + dname) if x == "@/D" else x for x in _argv_of(op)]


def _argv_of(op):
    k = op["op"]
    a = ["-p", "@/D"]
    if k == "plid":
        a += ["--plid", op["arg"]]
    elif k == "bmc":
        a += ["--bmc-id", op["arg"]]
    elif k == "id":
        a += ["-i", op["arg"]]
    elif k == "src":
        a += ["--src", op["arg"]]
    elif k == "srcx":
        a += ["--src-exclude", "@/X/exclude.txt", "-E"]
    elif k == "del":
        a += ["-d", op["arg"]]
    elif k == "delall":
        a += ["-D"]
    elif k == "json":
        a += ["-j"] + op["opts"]
    elif k == "jsonc":
        a += ["-j", "-c"] + op["opts"]
    if op.get("hex"):
        a += ["-x"]
    return a + op.get("flags", [])


def V(cls, detail):
    return {"class": cls, "key": "C10:" + cls, "detail": detail}


def norm(arg):
    a = arg.upper()
    return int(a[2:] if a.startswith("0X") else a, 16)


def execute(plan):
    stats = {}

    def bump(k, n=1):
        stats[k] = stats.get(k, 0) + n
    vio = []
    events = 0
    trace = []
    h = hashlib.sha256()
    recipe_of = {f["name"]: f["recipe"] for f in plan["files"] + plan["extra"]}
    for o in plan["ops"]:
        if o["op"] == "add":
            recipe_of[o["file"]["name"]] = o["file"]["recipe"]
    datas = {}
    mutated = False
    with World(bmc=plan.get("dname", "D") if plan.get("bmc") else None) as w:
        w.long_opts = bool(plan.get("long_opts"))
        w.fresh_per_run = bool(plan.get("fresh"))
        w.path_style = plan.get("path_style", "abs")
        w.rel_dot = bool(plan.get("fresh"))
        if w.path_style != "abs":
            bump("path_style:" + w.path_style)
        if plan.get("bmc"):
            bump("environment:bmc")
        bump("process_model:fresh" if w.fresh_per_run else "process_model:shared")
        dname = plan.get("dname", "D")
        if dname != "D":
            bump("dir_name_special")
        common.put_store(w, dname, plan["files"])
        for f in plan.get("damaged", []):
            common.put_store(w, dname, [f])
            bump("damaged_file_in_store")
        for f in plan.get("nested", []):
            common.put_store(w, dname + "/" + f["sub"], [f])
            bump("nested_pel")
        head = ["", "# L\u00fcfter / \u30d5\u30a1\u30f3\n", "\ufeff"][len(plan["exclude"]) % 3]     # comment / BOM written by some editors
        w.put("X/exclude.txt", (head + "\n".join(plan["exclude"])).encode("utf-8"))
        for f in plan["files"]:
            datas[f["name"]] = common.file_data(f)
            if f.get("link"):
                bump("symlinked_pel")
        for op in plan["ops"]:
            k = op["op"]
            if k == "add":
                datas[op["file"]["name"]] = common.file_data(op["file"])
                common.put_store(w, dname, [dict(op["file"], data=datas[op["file"]["name"]])])
                mutated = True
                trace.append("add")
                continue
            # the model: PEL files currently in the directory (facts by construction)
            present = sorted(os.listdir(w.path(dname)))
            model = {n: pelgen.facts(recipe_of[n]) for n in present if n in recipe_of}
            others = [n for n in present if n not in recipe_of and not os.path.isdir(os.path.join(w.path(dname), n))]
            argv = argv_of(op, dname)
            r = w.run(argv, order=op["order"], stdout_encoding=plan.get("stdout_encoding", "utf-8"), faults=op.get("faults"))
            events += len(r.events)
            h.update(r.digest.encode())
            h.update(r.stdout.encode())
            lst = list(r.listings[0][1]) if r.listings else []
            oclass = "asc" if lst == sorted(lst) else ("desc" if lst == sorted(lst, reverse=True) else "mixed")
            if k in ("del", "delall", "json", "jsonc"):
                mutated = True
                trace.append(k)
                bump("mutation:" + k)
                continue
            ctx = "argv=%s readdir=%s store=%s others=%s" % (argv, lst, {n: ("%08X" % f["eid"], "%08X" % f["plid"], f["bmc_id"], f["refcode"]) for n, f in model.items()}, others)
            if r.exc or r.exit != 0:
                vio.append(V("bad-exit", "exit=%r exc=%r stderr=%s; %s" % (r.exit, r.exc, r.stderr[-300:], ctx)))
                break
            bump("lookup:" + k)
            if r.fired:
                bump("listing_fault_fired")
                trace.append("%s:listing-fault" % k)
                continue            # (no traceback / bad exit was checked above; the result under the fault is not judged)
            if mutated:
                bump("after_" + ("json" if any(n.endswith(".json") for n in others) else "delete"))
            if op.get("hex"):
                bump("hex")
            if op.get("how") == "near":
                bump("near_miss")
            # ---- expected result
            if k in ("plid", "src", "srcx"):
                if k == "plid":
                    X = norm(op["arg"])
                    exp = {f["eid"] for f in model.values() if f["plid"] == X}
                    bump("id_" + mag(X))
                    if len(exp) > 1:
                        bump("shared_plid_hit")
                elif k == "src":
                    exp = {f["eid"] for f in model.values() if f["refcode"] is not None and op["arg"] in f["refcode"]}
                else:
                    text = "\n".join(plan["exclude"])        # (comment / BOM lines hold no reference code)
                    exp = {f["eid"] for f in model.values() if f["refcode"] is not None and f["refcode"] not in text}
                for f in model.values():
                    if f["eid"] in exp and f["hidden"]:
                        bump("hidden_hit")
                    if f["eid"] in exp and not f["serviceable"] and not f["hidden"]:
                        bump("nonserviceable_hit")
                if op.get("hex"):
                    blocks = common.split_hex_blocks(r.stdout)
                    if blocks is None or any(b is None for b in blocks):
                        vio.append(V("hex-malformed", "stdout=%r; %s" % (r.stdout[:200], ctx)))
                        break
                    want = sorted(datas[n] for n, f in model.items() if f["eid"] in exp)
                    if sorted(blocks) != want:
                        vio.append(V("lookup-%s-hex-wrong-set" % k, "got %d dumps, expected %d; %s" % (len(blocks), len(want), ctx)))
                        break
                    trace.append("%s:%s:x:%d" % (k, oclass, min(len(exp), 3)))
                    continue
                ok, j = common.parse_json_stream(r.stdout)
                if not ok or not isinstance(j, dict):
                    vio.append(V("lookup-not-json", "stdout=%r; %s" % (r.stdout[:300], ctx)))
                    break
                try:
                    got = [int(x, 16) for x in j.keys()]
                except ValueError:
                    vio.append(V("lookup-bad-key", "keys=%s; %s" % (list(j.keys()), ctx)))
                    break
                if set(got) != exp or len(got) != len(exp):
                    missing = ["%08X" % e for e in exp - set(got)]
                    extra = ["%08X" % e for e in set(got) - exp]
                    cls = "lookup-%s-%s" % (k, "missing" if missing else "extra")
                    vio.append(V(cls, "%s: missing=%s unexpected=%s; %s" % (k, missing, extra, ctx)))
                    break
                # light cross-check of the summaries
                by_eid = {f["eid"]: f for f in model.values()}
                for key, s in j.items():
                    f = by_eid[int(key, 16)]
                    try:
                        if int(s["PLID"], 16) != f["plid"] or (f["refcode"] is not None and s.get("SRC") != f["refcode"]):
                            vio.append(V("lookup-summary-wrong", "entry %s: %s vs facts plid=%08X src=%s; %s" % (key, s, f["plid"], f["refcode"], ctx)))
                    except (KeyError, ValueError, TypeError):
                        vio.append(V("lookup-summary-wrong", "entry %s malformed: %s" % (key, s)))
                if vio:
                    break
                trace.append("%s:%s:%s:%d" % (k, op.get("how"), oclass, min(len(exp), 3)))
            else:
                if k == "bmc":
                    cands = [n for n, f in model.items() if str(f["bmc_id"]) == op["arg"]]
                else:
                    E = norm(op["arg"])
                    bump("id_" + mag(E))
                    cands = [n for n, f in model.items() if f["eid"] == E and ("%08X" % E) in n]
                    if any(("%08X" % E) in n for n in others) and cands:
                        first = [n for n in lst if ("%08X" % E) in n][:1]
                        if first and first[0] in others:
                            bump("json_sibling_listed_first")
                for n in cands:
                    if model[n]["hidden"]:
                        bump("hidden_hit")
                    if not model[n]["serviceable"] and not model[n]["hidden"]:
                        bump("nonserviceable_hit")
                out = r.stdout
                if not cands:
                    # "reports an empty result or 'PEL not found'": no document may be shown
                    if out.strip() not in ("PEL not found", ""):
                        vio.append(V("lookup-%s-not-found-expected" % k, "no such PEL but stdout=%r; %s" % (out[:200], ctx)))
                        break
                    trace.append("%s:%s:%s:nf" % (k, op.get("how"), oclass))
                    continue
                if op.get("hex"):
                    blocks = common.split_hex_blocks(out)
                    if not blocks or len(blocks) != 1 or blocks[0] not in [datas[n] for n in cands]:
                        cls = "lookup-%s-missing" % k
                        if k == "id" and any(n.endswith(".json") for n in others):
                            cls = "lookup-id-shadowed-by-json-sibling"
                        vio.append(V(cls, "-x: expected the dump of %s; stdout=%r; %s" % (cands, out[:200], ctx)))
                        break
                    trace.append("%s:%s:x:found" % (k, oclass))
                    continue
                ok, j = common.parse_json_stream(out)
                if not ok or not isinstance(j, dict) or "Private Header" not in j:
                    cls = "lookup-%s-missing" % k
                    if k == "id" and any(n.endswith(".json") for n in others):
                        cls = "lookup-id-shadowed-by-json-sibling"
                    vio.append(V(cls, "PEL %s exists but stdout=%r stderr=%r; %s" % (cands, out[:200], r.stderr[-200:], ctx)))
                    break
                ph = j["Private Header"]
                try:
                    good = any(int(ph["Entry Id"], 16) == model[n]["eid"] and ph["BMC Event Log Id"] == str(model[n]["bmc_id"]) for n in cands)
                except (KeyError, ValueError, TypeError):
                    good = False
                if not good:
                    vio.append(V("lookup-%s-wrong-pel" % k, "displayed Entry Id %r / BMC id %r, expected one of %s; %s" % (
                        ph.get("Entry Id"), ph.get("BMC Event Log Id"), cands, ctx)))
                    break
                trace.append("%s:%s:%s:found" % (k, op.get("how"), oclass))
    seen, uniq = set(), []
    for v in vio:
        if v["key"] not in seen:
            seen.add(v["key"])
            uniq.append(v)
    first_mut = next((i for i, t in enumerate(trace) if t in ("add", "del", "delall", "json", "jsonc")), None)
    nontrivial = first_mut is not None and first_mut < len(trace) - 1
    sample = {"store": {f["name"]: {"eid": "%08X" % f["recipe"]["eid"], "plid": "%08X" % f["recipe"]["plid"],
                                    "bmc": f["recipe"]["bmc_id"]} for f in plan["files"]},
              "history": [argv_of(o, plan.get("dname", "D")) if o["op"] != "add" else ["<BMC adds>", o["file"]["name"]] for o in plan["ops"]],
              "trace": trace}
    return {"violations": uniq, "stats": stats, "traces": ["|".join(trace)] if nontrivial else [], "events": events,
            "evals": len(plan["ops"]), "digest": h.hexdigest(), "sample": sample}


def shrink_candidates(plan, violation):
    P = lambda: json.loads(json.dumps(plan))
    for i in range(len(plan["ops"]) - 1, -1, -1):
        if len(plan["ops"]) > 1:
            c = P()
            del c["ops"][i]
            yield c
    for i in range(len(plan["files"]) - 1, -1, -1):
        c = P()
        del c["files"][i]
        yield c
    for i, f in enumerate(plan["files"]):
        secs = f["recipe"]["sections"]
        for j in range(len(secs) - 1, -1, -1):
            if secs[j]["kind"] == "src" and secs[j]["id"] == "PS" and plan["all_src"]:
                continue
            c = P()
            del c["files"][i]["recipe"]["sections"][j]
            yield c
    for i, o in enumerate(plan["ops"]):
        if o["order"]["policy"] not in ("asc", "desc"):
            for pol in ("asc", "desc"):
                c = P()
                c["ops"][i]["order"] = {"policy": pol, "key": 0}
                yield c
        if o.get("flags"):
            c = P()
            c["ops"][i]["flags"] = []
            yield c
        if o.get("hex"):
            c = P()
            c["ops"][i]["hex"] = False
            yield c
