"""
C08 — list, count and display-all agree on the same PELs, in file-name order.

Simulation: a seeded directory of well-formed PELs (distinct entry ids, names
of several styles/extensions), a seeded option set, and for every one of the
CLI invocations (-n, -l, -a, with/without -r, -e, -x) its own readdir
permutation served by SimFS.  Oracle = relations between the real executions
plus by-construction facts (file name <-> entry id); no second decoder.
"""
import hashlib
import json

from sim import pelgen
from sim.world import World
from checks import common

PROPERTY = "C08"
LEVEL = "exploration"
MODES = ["O0"]
TIERS = {"quick": {"runs": 6000, "wall": 55}, "thorough": {"runs": 60000, "wall": 1500}}
RULE = ("plan = seeded directory (0..12 well-formed PELs, name styles bmc/plain/numeric/mixed, optional "
        "extensions) + option set + -r/-e/-x/-P + one readdir permutation per invocation (-n also with -x); "
        "distinct_nontrivial counts distinct abstract traces (number of files, number selected, option set, "
        "reverse, extension filter, hex, readdir-permutation class per invocation) among plans with >= 2 files.")
COMPONENTS = {"real": ["pel.peltool.peltool.main() in-process, all decoders"],
              "stub": ["directory enumeration order (SimFS)", "stdout capture", "fake pel_registry (message registry / component names) in part of the runs"]}
ASSUMPTIONS = ["directories contain only well-formed PELs with distinct entry ids (precondition of the property)",
               "which PELs an option set selects is not judged here (C07) except under -E, where every PEL must appear"]
PROBES = ["pel_over_2KiB", "perm_not_sorted", "reverse", "ext_filter", "hex", "selected_lt_total", "empty_dir", "message_in_list"]


def gen_plan(rng, tier, run):
    n = rng.choice([0, 1, 2, 3, 4, 5, 6, 8, 12])
    ext = rng.choice([None, None, [".pel"], [".pel", ".txt", ""], [".pel", ".PEL", ".pel.bak"], [".json", ".pel", ""]])
    files = common.gen_store(rng, n, ext=ext, max_sections=4, ud_targets=[("O", 0x2000)] if rng.random() < 0.4 else None,
                             links=rng.choice([0, 0, 0, 0.3]))
    # some PELs well above 2 KiB: no primary SRC and large sections, or an SRC with the maximum of 10 callouts
    for f in files:
        c = rng.random()
        if c < 0.05:
            f["recipe"]["sections"] = [s for s in f["recipe"]["sections"] if s["kind"] != "src"]
            for _ in range(rng.randint(1, 3)):
                f["recipe"]["sections"].append(dict(pelgen.gen_raw(rng), payload=bytes(rng.randrange(256) for _ in range(rng.randint(900, 3000))).hex()))
        elif c < 0.10:
            f["recipe"]["sections"] = [pelgen.gen_src(rng, "PS", f["recipe"]["creator"], callouts=10)] + \
                [s for s in f["recipe"]["sections"] if s["kind"] != "src"]
    late = None
    if rng.random() < 0.25:
        lr = pelgen.gen_pel(rng, eid=0x5A7E0000 | rng.randrange(1 << 16), want_class="serviceable", max_sections=2)
        late = {"name": "late_%08X%s" % (lr["eid"], rng.choice(ext) if ext else ""), "recipe": lr}
        if any(f["recipe"]["eid"] == lr["eid"] for f in files):
            late = None
    plan = {"files": files, "late_file": late,
            # process model: every invocation in a fresh module set (= its own process) or all in one process
            # how paths are spelled on the command line: absolute, relative to the cwd, with a trailing slash
            "path_style": rng.choice(["abs", "abs", "abs", "rel", "slash"]),
            "fresh": rng.random() < 0.5,
            "opts": common.gen_selection(rng),
            "rev": rng.random() < 0.4,
            "ext": rng.choice([".pel", ".txt", ".PEL", ".bak", ".json"]) if ext and rng.random() < 0.7 else None,
            "hex": rng.random() < 0.25,
            "stdout_encoding": rng.choice(["utf-8", "utf-8", "utf-8", "ascii", "latin-1"]),
            # environment: "on the BMC" (built-in default directory, no -p; -A = its archive/) or a workstation (-p)
            "bmc": rng.choice([None, None, None, "logs", "archive"]),
            "skip_plugins": rng.random() < 0.2,
            "registry": common.gen_registry(rng, [f["recipe"] for f in files]) if rng.random() < 0.5 else None,
            # invocations executed earlier in the same module set (a library user / test harness calling main() repeatedly):
            # read-only, with other option sets; they must not influence the three modes compared below
            "prelude": [{"mode": rng.choice(["-l", "-n", "-a"]), "opts": common.gen_selection(rng),
                         "flags": [x for x in ("-r", "-x") if rng.random() < 0.3], "pos": rng.randrange(3)} for _ in range(rng.choice([0, 0, 1, 2]))],
            "orders": {k: {"policy": rng.choice(["perm", "perm", "perm", "asc", "desc"]), "key": rng.randrange(1 << 30)}
                       for k in ("n", "l", "a", "lx", "ax")}}
    return plan


def V(cls, detail, **kw):
    d = {"class": cls, "key": "C08:" + cls, "detail": detail}
    d.update(kw)
    return d


def execute(plan):
    stats = {}

    def bump(k, n=1):
        stats[k] = stats.get(k, 0) + n
    vio = []
    files = plan["files"]
    by_eid = {f["recipe"]["eid"]: f for f in files}
    datas = {f["name"]: common.file_data(f) for f in files}
    if any(len(d) > 2048 for d in datas.values()):
        bump("pel_over_2KiB")
    target = "D/archive" if plan.get("bmc") == "archive" else "D"
    base = ["-p", "@/" + target] + plan["opts"] + (["-e", plan["ext"]] if plan["ext"] else []) + (["-P"] if plan["skip_plugins"] else [])
    rev = ["-r"] if plan["rev"] else []
    events = 0
    h = hashlib.sha256()
    with World(registry=plan["registry"], bmc="D" if plan.get("bmc") else None) as w:
        w.long_opts = bool(plan.get("long_opts"))
        if plan.get("bmc"):
            bump("environment:bmc-" + plan["bmc"])
        w.fresh_per_run = bool(plan.get("fresh"))
        w.path_style = plan.get("path_style", "abs")
        w.rel_dot = bool(plan.get("fresh"))
        if w.path_style != "abs":
            bump("path_style:" + w.path_style)
        bump("process_model:fresh" if w.fresh_per_run else "process_model:shared")
        w.mkdir("D")
        common.put_store(w, target, [dict(f, data=datas[f["name"]]) for f in files])
        if target != "D":
            # the live directory next to the archive holds other logs, which -A must not show
            w.put("D/decoy_%08X" % 0x5EC0DE01, pelgen.build(pelgen.gen_pel(__import__("random").Random(plan["orders"]["n"]["key"]), eid=0x5EC0DE01, want_class="serviceable")))
        before = w.snapshot()
        def prelude(pos):
            # other invocations of the same process, before / between the compared ones
            for i, pre in enumerate(plan.get("prelude", [])):
                if (0 if plan.get("late_file") else pre.get("pos", i % 3)) == pos:
                    w.run(["-p", "@/" + target, pre["mode"]] + pre["opts"] + pre["flags"])
                    bump("prelude")
        res = {}
        prelude(0)
        if plan.get("late_file") and files:
            # the directory changes between earlier invocations of the process and the three compared ones
            lf = plan["late_file"]
            common.put_store(w, target, [lf])
            files = files + [lf]
            by_eid[lf["recipe"]["eid"]] = lf
            datas[lf["name"]] = common.file_data(lf)
            bump("late_file")
        before = w.snapshot()
        enc = plan.get("stdout_encoding", "utf-8")
        res["n"] = w.run(base + ["-n"] + rev, order=plan["orders"]["n"], stdout_encoding=enc)
        prelude(1)
        res["l"] = w.run(base + ["-l"] + rev, order=plan["orders"]["l"], stdout_encoding=enc)
        prelude(2)
        res["a"] = w.run(base + ["-a"] + rev, order=plan["orders"]["a"], stdout_encoding=enc)
        if plan["hex"]:
            res["lx"] = w.run(base + ["-l", "-x"] + rev, order=plan["orders"]["lx"])
            res["ax"] = w.run(base + ["-a", "-x"] + rev, order=plan["orders"]["ax"])
            # the count "with --hex" is still the count: the same JSON object and number as without it
            res["nx"] = w.run(base + ["-n", "-x"] + rev, order=plan["orders"]["n"])
        after = w.snapshot()
    for k, r in res.items():
        events += len(r.events)
        h.update(r.digest.encode())
        h.update(r.stdout.encode())
        if r.exit != 0 or r.exc:
            vio.append(V("bad-exit", "%s: exit=%r exc=%r stderr=%s" % (r.argv, r.exit, r.exc, r.stderr[-400:])))
        for rel, names in r.listings:
            if list(names) != sorted(names):
                bump("perm_not_sorted")
    if vio:
        return {"violations": vio, "stats": stats, "traces": [], "events": events, "digest": h.hexdigest()}

    okn, jn = common.parse_json_stream(res["n"].stdout)
    okl, jl = common.parse_json_stream(res["l"].stdout)
    oka, ja = common.parse_json_stream(res["a"].stdout)
    if not (okn and isinstance(jn, dict) and isinstance(jn.get("Number of PELs found"), int)):
        vio.append(V("count-not-json", "stdout of -n: %r" % res["n"].stdout[:300]))
    if not (okl and isinstance(jl, dict)):
        vio.append(V("list-not-json", "stdout of -l: %r" % res["l"].stdout[:300]))
    if not (oka and isinstance(ja, list)):
        vio.append(V("all-not-json", "stdout of -a: %r" % res["a"].stdout[:300]))
    if vio:
        return {"violations": vio, "stats": stats, "traces": [], "events": events, "digest": h.hexdigest()}

    count = jn["Number of PELs found"]
    lkeys = list(jl.keys())
    try:
        akeys = [d["Private Header"]["Entry Id"] for d in ja]
    except (KeyError, TypeError) as e:
        vio.append(V("all-doc-malformed", "a document of -a lacks Private Header/Entry Id: %r" % e))
        akeys = None
    ctx = "argv=%s files=%s" % (res["l"].argv, sorted(datas))
    if akeys is not None:
        if not (count == len(lkeys) == len(ja)):
            vio.append(V("count-mismatch", "-n says %d, -l has %d entries, -a has %d documents; %s" % (
                count, len(lkeys), len(ja), ctx)))
        elif lkeys != akeys:
            vio.append(V("list-all-disagree", "-l keys %s vs -a entry ids %s; %s" % (lkeys, akeys, ctx)))
    # order: ascending file name (reverse with -r); ids -> files by construction
    eligible = sorted(f["name"] for f in files if common.ext_matches(f["name"], plan["ext"]))
    if plan["rev"]:
        eligible.reverse()
    name_of = {}
    for seq_name, keys in (("-l", lkeys), ("-a", akeys or [])):
        names = []
        for k in keys:
            try:
                f = by_eid[int(k, 16)]
            except (ValueError, KeyError):
                vio.append(V("unknown-entry-id", "%s reports entry id %r which no file in the directory has; %s" % (seq_name, k, ctx)))
                names = None
                break
            names.append(f["name"])
        if names is None:
            continue
        if len(set(names)) != len(names):
            vio.append(V("duplicate-entry", "%s reports a PEL twice: %s" % (seq_name, names)))
            continue
        bad_ext = [n for n in names if n not in eligible]
        if bad_ext:
            vio.append(V("extension-filter", "%s with -e %s reports files %s" % (seq_name, plan["ext"], bad_ext)))
            continue
        expect = [n for n in eligible if n in set(names)]
        if names != expect:
            vio.append(V("order", "%s presents files in order %s, expected %s (reverse=%s); readdir served %s" % (
                seq_name, names, expect, plan["rev"], res["l" if seq_name == "-l" else "a"].listings[:1])))
        name_of[seq_name] = names
    if "-E" in plan["opts"] and not vio:
        if count != len(eligible):
            vio.append(V("every-pel-count", "-E: %d reported, %d files eligible; %s" % (count, len(eligible), ctx)))
    # summary fields == fields of the full decode
    if not vio and akeys is not None:
        for k, doc in zip(lkeys, ja):
            s = jl[k]
            try:
                ph, uh = doc["Private Header"], doc["User Header"]
                exp = {"PLID": ph["Platform Log Id"], "CreatorID": ph["Creator Subsystem"], "Subsystem": uh["Subsystem"],
                       "Commit Time": ph["Committed at"], "Sev": uh["Event Severity"], "CompID": ph["Created by"]}
                ps = doc.get("Primary SRC")
                if ps is not None:
                    exp["SRC"] = ps["Reference Code"]
                    if "Error Details" in ps:
                        exp["Message"] = ps["Error Details"]["Message"]
                        bump("message_in_list")
            except (KeyError, TypeError) as e:
                vio.append(V("all-doc-malformed", "document for %s lacks a field: %r" % (k, e)))
                break
            if not isinstance(s, dict):
                vio.append(V("summary-malformed", "-l entry %s is %r" % (k, s)))
                break
            # the named summary fields must equal the full decode; additional fields in a --list entry are not judged
            diff = {f: (s.get(f), exp.get(f)) for f in exp if s.get(f) != exp.get(f)}
            if "Message" in s and "Message" not in exp:
                diff["Message"] = (s["Message"], None)
            if diff:
                vio.append(V("summary-field", "-l entry %s differs from the full decode: %s" % (k, diff)))
                break
    # --hex: same PELs, same order, bytes recovered
    if plan["hex"] and not vio:
        for k, seq in (("lx", "-l"), ("ax", "-a")):
            blocks = common.split_hex_blocks(res[k].stdout)
            if blocks is None or any(b is None for b in blocks):
                vio.append(V("hex-malformed", "%s -x output is not a sequence of delimited dumps: %r" % (seq, res[k].stdout[:200])))
                continue
            want = [datas[n] for n in name_of.get(seq, [])]
            if blocks != want:
                vio.append(V("hex-mismatch", "%s -x printed %d blocks (lens %s), expected the %d listed files (lens %s) in order" % (
                    seq, len(blocks), [len(b) for b in blocks], len(want), [len(b) for b in want])))
        oknx, jnx = common.parse_json_stream(res["nx"].stdout)
        if not (oknx and isinstance(jnx, dict) and jnx.get("Number of PELs found") == count):
            vio.append(V("count-hex-mismatch", "-n says %d, -n -x prints %r" % (count, res["nx"].stdout[:300])))
        bump("hex")
    if before != after:
        vio.append(V("tree-changed", "a read-only mode changed the directory"))
    # coverage bookkeeping
    if plan["rev"]:
        bump("reverse")
    if plan["ext"]:
        bump("ext_filter")
    if not files:
        bump("empty_dir")
    if count < len(eligible):
        bump("selected_lt_total")
    traces = []
    if len(files) >= 2:
        def pclass(r):
            for rel, names in r.listings:
                names = list(names)
                return "asc" if names == sorted(names) else ("desc" if names == sorted(names, reverse=True) else "mixed")
            return "none"
        traces.append("n%d|sel%d|%s|r%d|e%s|x%d|%s%s%s" % (len(files), count, "".join(plan["opts"]), plan["rev"], plan["ext"],
                                                          plan["hex"], pclass(res["n"]), pclass(res["l"]), pclass(res["a"])))
    sample = {"argv": [res[k].argv for k in res], "files": sorted(datas), "count": count, "list_keys": lkeys,
              "readdir_served_for_-l": [list(x[1]) for x in res["l"].listings][:1]}
    seen, uniq = set(), []
    for v in vio:
        if v["key"] not in seen:
            seen.add(v["key"])
            uniq.append(v)
    return {"violations": uniq, "stats": stats, "traces": traces, "events": events, "evals": len(res),
            "digest": h.hexdigest(), "sample": sample}


def shrink_candidates(plan, violation):
    P = lambda: json.loads(json.dumps(plan))
    for i in range(len(plan["files"])):
        c = P()
        del c["files"][i]
        yield c
    for i, f in enumerate(plan["files"]):
        for j in range(len(f["recipe"]["sections"]) - 1, -1, -1):
            c = P()
            del c["files"][i]["recipe"]["sections"][j]
            yield c
    for i in range(len(plan.get("prelude", []))):
        c = P()
        del c["prelude"][i]
        yield c
    for k in ("rev", "hex", "skip_plugins"):
        if plan[k]:
            c = P()
            c[k] = False
            yield c
    for k in ("ext", "registry"):
        if plan[k]:
            c = P()
            c[k] = None
            yield c
    if plan["opts"]:
        c = P()
        c["opts"] = []
        yield c
    for k, o in plan["orders"].items():
        if o["policy"] != "asc":
            c = P()
            c["orders"][k] = {"policy": "asc", "key": 0}
            yield c
            if o["policy"] == "perm":
                c = P()
                c["orders"][k] = {"policy": "desc", "key": 0}
                yield c
