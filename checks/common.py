"""helpers shared by the checks (workload builders, junk faults, parsing)"""
import json

from sim import pelgen

SELECTION_SETS = [
    [], [], ["-E"], ["-E"], ["-s"], ["-N"], ["-H"], ["-H", "-O"], ["-t"], ["-s", "-H"],
    ["-S", "Informational"], ["-O", "-S", "Unrecoverable"], ["-S", "Predictive", "Recovered"],
    ["-N", "-O"], ["-O", "-S", "Critical", "-t"], ["-S", "Symptom", "Diagnostic", "-H"],
    ["-s", "-O", "-S", "Predictive"], ["-E", "-O"],
]


def bmc_name(recipe):
    return "%s_%08X" % (recipe["commit"], recipe["eid"])


def make_names(rng, recipes, style=None, ext=None):
    style = style or rng.choice(["bmc", "plain", "mixed", "numeric", "digits"])
    names = []
    for i, r in enumerate(recipes):
        if style == "bmc":
            n = bmc_name(r)
        elif style == "plain":
            n = "pel%d" % i
        elif style == "numeric":
            # sorts differently as string and as number
            n = str(rng.choice([1, 2, 9, 10, 11, 100, 20, 3])) + "_%08X" % r["eid"]
        else:
            n = rng.choice([bmc_name(r), "log-%08X" % r["eid"], "PEL%02d" % i, "x%d" % (10 - i)])
        if style == "digits":
            n = str(rng.choice([1, 2, 9, 10, 11, 100, 20, 3, 5, 1000]) + 3 * i * 1000)
        if ext:
            n += rng.choice(ext)
            if rng.random() < 0.06:
                n = rng.choice(ext).lstrip(".") or n           # a file called just "pel": no extension at all
        while n in names:
            n += "_"
        names.append(n)
    return names


def apply_junk(data, junk):
    """storage-at-rest faults; `junk` = {kind, off, val, n, seed}"""
    k = junk["kind"]
    if k == "torn":
        return data[:junk["off"]]
    if k == "lost":
        return b""
    if k == "flip":
        off = junk["off"] % max(1, len(data))
        b = bytearray(data)
        b[off] = junk["val"] & 0xFF if (junk["val"] & 0xFF) != b[off] else (b[off] ^ 0x01)
        return bytes(b)
    if k == "utf8":
        # two adjacent bytes replaced by a valid two-byte UTF-8 sequence (text stays decodable, but is not ASCII)
        off = junk["off"] % max(1, len(data) - 1)
        b = bytearray(data)
        b[off:off + 2] = bytes.fromhex(junk.get("seq", "c3a9"))
        return bytes(b)
    if k == "garbage":
        import random
        r = random.Random(junk["seed"])
        return bytes(r.randrange(256) for _ in range(junk["n"]))
    if k == "foreign":
        return bytes.fromhex(junk["raw_hex"]) if junk.get("raw_hex") else junk["text"].encode()
    raise ValueError(k)


def gen_junk(rng, data, offsets=None, kinds=None, fields=None):
    k = rng.choice(kinds or ["torn", "torn", "flip", "flip", "flip", "lost", "garbage", "foreign"])
    if k == "flip" and fields and rng.random() < 0.6:
        # bit rot inside a length / count / flag / id field
        # sub-structure size / length / count fields are where a wrong byte re-frames everything after it
        wts = [6 if n.endswith(".size") and not n.startswith("src") else (3 if n.rsplit(".", 1)[-1] in ("len", "size", "count", "wordlen", "loclen", "sectionCount", "wordcount", "symlen", "namelen", "flags", "id") else 1)
               for _, _, n in fields]
        if rng.random() < 0.5:
            # pick the KIND of field first, so that rare structures (PCE, MRU, LP ...) are hit as often as common ones
            kinds_present = sorted({n.split(".", 1)[-1] if n[:2].isupper() and n[2] == "." else n for _, _, n in fields})
            kind = rng.choice(kinds_present)
            cands = [f for f in fields if f[2] == kind or (f[2][:2].isupper() and f[2][2:] == "." + kind)]
            off, width, name = rng.choice(cands)
        else:
            off, width, name = rng.choices(fields, weights=wts)[0]
        off += rng.randrange(width)
        cur = data[off]
        val = rng.choice([0, 1, 2, 4, 8, 23, max(0, cur - 1), (cur + 1) & 0xFF, cur ^ 0x80, cur ^ 0x01, 0xFF, rng.randrange(256)])
        return {"kind": "flip", "off": off, "val": val, "field": name}
    if k == "torn":
        # bias: inside the two headers / on a section boundary / anywhere
        c = rng.random()
        if c < 0.35:
            off = rng.randrange(0, min(72, len(data)))
        elif c < 0.55 and offsets:
            off = rng.choice(offsets)[1] + rng.choice([-1, 0, 1, 4, 8])
        else:
            off = rng.randrange(0, len(data))
        off = max(0, min(len(data) - 1, off))
        return {"kind": "torn", "off": off}
    if k == "flip":
        c = rng.random()
        if c < 0.4:
            off = rng.randrange(0, min(72, len(data)))
        elif c < 0.7 and offsets:
            s = rng.choice(offsets)
            off = min(len(data) - 1, s[1] + rng.choice([0, 1, 2, 3, 4, 5, 6, 7, 8, 9, 10, 11]))
        else:
            off = rng.randrange(len(data))
        return {"kind": "flip", "off": off, "val": rng.choice([0x00, 0xFF, rng.randrange(256), 0x80, 0x01])}
    if k == "lost":
        return {"kind": "lost"}
    if k == "garbage":
        return {"kind": "garbage", "n": rng.choice([1, 7, 48, 71, 72, 100, 300]), "seed": rng.randrange(1 << 30)}
    if rng.random() < 0.4:
        # files of other formats that end up in the directory: recognisable magic numbers, then anything
        magic = rng.choice(["1f8b", "1f8b0800", "504b0304", "425a68", "fd377a585a00", "7f454c46", "efbbbf", "2321", "5048"])
        import random as _r
        tail = bytes(_r.Random(rng.randrange(1 << 30)).randrange(256) for _ in range(rng.choice([0, 6, 40, 200])))
        return {"kind": "foreign", "text": "", "raw_hex": magic + tail.hex()}
    return {"kind": "foreign", "text": rng.choice(['{\n    "Private Header": {}\n}\n', "PEL not found\n", "PH", "PHXX" * 30,
                                                   "#!/bin/sh\necho hi\n"])}


def parse_json_stream(text):
    """returns (ok, value) – exactly one JSON document, nothing else"""
    try:
        return True, json.loads(text)
    except (ValueError, RecursionError):
        return False, None


def split_hex_blocks(text):
    """--hex output -> list of bytes objects, or None if malformed"""
    from sim.hexparse import parse_dump_lines
    lines = text.split("\n")
    if lines and lines[-1] == "":
        lines.pop()
    blocks, cur = [], None
    for ln in lines:
        if ln == "-------------- PEL Begin  ----------------":
            if cur is not None:
                return None
            cur = []
        elif ln == "-------------- PEL End    ----------------":
            if cur is None:
                return None
            blocks.append(parse_dump_lines(cur))
            cur = None
        else:
            if cur is None:
                return None
            cur.append(ln)
    if cur is not None:
        return None
    return blocks


# ---------------------------------------------------------------------------
# stores (directories of PELs)
# ---------------------------------------------------------------------------
REFCODE_POOL = ["BD8D1234", "BD8D1235", "BD8D5678", "BD201234", "BDE51234", "BC8A0001", "BC201234", "110015F0",
                "110015F1", "B7001111", "BD8D12AB", "B181F02A", "BD751234", "11201234", "BC8D1234", "B7001111 LIC",
                "BD8D1234 00000002", "B7001111 vios1", "BD8D5678 node0-a"]


def gen_store(rng, n, *, style=None, ext=None, id_magnitude=None, refpool=None, with_src=None, max_sections=5,
              classes=None, ud_targets=None, dup_plid=0.3, links=0, big=0.02):
    """n well-formed PELs with distinct entry ids; file names are unambiguous:
    no name contains the 8-digit entry id of another file."""
    style = style or rng.choice(["bmc", "bmc", "plain", "mixed", "numeric", "digits"])
    recipes, eids = [], set()
    for i in range(n):
        for _ in range(50):
            eid = pelgen.gen_id(rng, id_magnitude)
            if eid not in eids:
                break
        eids.add(eid)
        plid = None
        if recipes and rng.random() < dup_plid:
            plid = rng.choice(recipes)["plid"]          # several PELs sharing one PLID
        r = pelgen.gen_pel(rng, eid=eid, plid=plid, want_class=rng.choice(classes) if classes else None,
                           refcode_pool=refpool, with_src=with_src, max_sections=max_sections,
                           id_magnitude=id_magnitude, ud_targets=ud_targets)
        if rng.random() < big:
            # a PEL of tens of kilobytes (one large user-data / unknown section)
            r["sections"].append({"kind": "raw", "id": rng.choice(["UD", "ZZ", "CH"]), "ver": 1, "subtype": 0x99, "comp": 0x0BAD,
                                  "payload": (bytes(range(256)) * 250)[:rng.choice([17000, 33000, 60000])].hex()})
            if r["sections"][-1]["id"] == "UD":
                r["sections"][-1]["kind"] = "ud"
        recipes.append(r)
    for _ in range(20):
        names = make_names(rng, recipes, style, ext)
        ok = True
        for i, nm in enumerate(names):
            for j, r in enumerate(recipes):
                if i != j and ("%08X" % r["eid"]) in nm:
                    ok = False
        if ok:
            break
        for r in recipes:
            r["commit"] = pelgen._bcd_time(rng)
    else:
        style = "plain"
        names = make_names(rng, recipes, "plain", ext)
    return [dict({"name": nm, "recipe": r}, **({"link": True} if links and rng.random() < links else {})) for nm, r in zip(names, recipes)]


def gen_registry(rng, recipes):
    """a small fake message registry + component-id table that matches some of
    the generated reference codes"""
    pels = []
    seen = set()
    for r in recipes:
        for s in r["sections"]:
            if s["kind"] == "src" and rng.random() < 0.6:
                code = s["ascii"][4:8]
                typ = s["ascii"][0:2]
                if (code, typ) in seen:
                    continue
                seen.add((code, typ))
                e = {"Name": "xyz.openbmc_project.Fake." + code,
                     "SRC": {"ReasonCode": "0x" + code},
                     "Documentation": {"Description": "fake", "Message": "Fake message for " + code}}
                if typ != "BD" or rng.random() < 0.3:
                    e["SRC"]["Type"] = typ
                e["Documentation"]["Message"] += " [%s]" % typ
                if rng.random() < 0.5:
                    e["Documentation"]["Message"] = "Value %1 and %2 for " + code
                    e["Documentation"]["MessageArgSources"] = ["SRCWord6", "SRCWord9"]
                if rng.random() < 0.4:
                    e["SRC"]["Words6To9"] = {"6": {"Description": "word six", "AdditionalDataPropSource": "PROP6"},
                                             "8": {"AdditionalDataPropSource": "NODESC"}}
                pels.append(e)
    comp = {"O": {"2000": "phosphor-logging", "1000": "bmc common", "E500": "openpower-hw-diags"},
            "B": {"2000": "hb common"}}
    return {"pels": pels, "component_ids": comp}


def put_store(w, d, files):
    w.mkdir(d)
    for f in files:
        data = f["data"] if "data" in f else file_data(f)
        if f.get("link"):
            # the directory entry is a symbolic link to the PEL stored elsewhere (e.g. an archive)
            w.put("T-%s/%s" % (d.replace("/", "_"), f["name"]), data)
            w.symlink(d + "/" + f["name"], "T-%s/%s" % (d.replace("/", "_"), f["name"]))
        else:
            w.put(d + "/" + f["name"], data)


def file_data(f):
    if "raw_hex" in f:
        return bytes.fromhex(f["raw_hex"])
    data = pelgen.build(f["recipe"])
    if f.get("junk"):
        data = apply_junk(data, f["junk"])
    return data


def ext_matches(name, ext):
    import os
    return (not ext) or os.path.splitext(name)[1] == ext


def headers_damaged_by_construction(data, junk):
    """True when the stored bytes cannot possibly carry two decodable headers: shorter than 72 bytes, or one of the
    two section ids (offsets 0-1 'PH', 48-49 'UH') is wrong.  Such a file is junk for EVERY mode, whatever the
    tool under test makes of it."""
    bad = apply_junk(data, junk)
    return len(bad) < 72 or bad[0:2] != b"PH" or bad[48:50] != b"UH"


# ---------------------------------------------------------------------------
# I/O drawer payloads (well-formed trace buffers / ilog entries for the shipped m2c00 plugin)
# ---------------------------------------------------------------------------
_TRACE_HASHES = {}


def trace_hashes(version):
    """hash values of the trace string file for the drawer type of `version` (read from the repository's data
    file – data, not code); [] if unavailable"""
    import os, re
    from sim import world
    name = {1: "mexStringFile", 2: "nimitzStringFile"}.get(version)
    if name is None:
        return []
    if name not in _TRACE_HASHES:
        try:
            with open(os.path.join(world.MODULES, "io_drawer", name)) as fd:
                _TRACE_HASHES[name] = [int(m.group(1)) for line in fd for m in [re.match(r"\s*([0-9]+)\s*\|\|", line)] if m]
        except OSError:
            _TRACE_HASHES[name] = []
    return _TRACE_HASHES[name]


def trace_family(rng, version):
    """low five digits shared by several lines of the string file (a 'family'), preferred over singletons: partial
    matches inside such a family depend on the order in which the lines are searched"""
    import collections
    hashes = trace_hashes(version)
    if not hashes:
        return 0
    cnt = collections.Counter(h % 100000 for h in hashes)
    multi = sorted(k for k, v in cnt.items() if v > 1)
    return rng.choice(multi) if multi and rng.random() < 0.8 else rng.choice(hashes) % 100000


def gen_trace_payload(rng, version, fam=None):
    import struct
    hashes = trace_hashes(version)
    entries = b""
    if fam is None:
        fam = trace_family(rng, version)
    family = [h for h in hashes if h % 100000 == fam] or hashes[:1]
    for _ in range(rng.randint(1, 6)):
        c = rng.random()
        if hashes and c < 0.35:
            h = rng.choice(hashes)                                   # exact hit
        elif hashes and c < 0.55:
            h = rng.choice(family)                                   # exact hit inside one low-digits family
        elif hashes and c < 0.85:
            h = (fam if rng.random() < 0.6 else rng.choice(hashes) % 100000) + 100000 * rng.randrange(1, 900)   # partial match only
        else:
            h = rng.randrange(1 << 32)
        binary = rng.random() < 0.2
        data = bytes(rng.randrange(256) for _ in range(rng.choice([0, 4, 8, 12, 20, 7])))
        pad = (-len(data)) % 4
        size = 16 + len(data) + pad + 4
        entries += struct.pack(">HHHHII", rng.randrange(1 << 16), rng.randrange(1 << 16), len(data), 0x4644 if binary else 0x4654,
                               h & 0xFFFFFFFF, rng.randrange(1, 3000)) + data + bytes(pad) + struct.pack(">I", size)
    total = 32 + len(entries)
    hdr = bytes([1, 32, 0, ord("B")]) + rng.choice([b"IICS", b"POWR", b"FANS", b"INFO", b"ERRL"]).ljust(12, b"\x00") + bytes(4) \
        + struct.pack(">III", total, rng.randrange(4), total)
    return (hdr + entries).hex()


def gen_ilog_payload(rng):
    import struct
    out = b""
    for _ in range(rng.randint(1, 8)):
        out += struct.pack(">HHI", rng.randrange(1 << 16), rng.randrange(1 << 16),
                           rng.choice([0xE308310E, 0xE3083100, rng.randrange(1 << 32), 0x11000000 | rng.randrange(1 << 16)]))
    return out.hex()


SEVERITY_GROUPS = ["Informational", "Recovered", "Predictive", "Unrecoverable", "Critical", "Diagnostic", "Symptom"]


def gen_selection(rng):
    """a selection-option combination: one of the usual sets, or (half of the time) an arbitrary subset of
    -E -s -N -H -t -O with 0..3 severity groups"""
    if rng.random() < 0.5:
        return list(rng.choice(SELECTION_SETS))
    opts = [o for o in ("-E", "-s", "-N", "-H", "-t", "-O") if rng.random() < 0.25]
    if rng.random() < 0.4:
        # -S takes one or more values; it goes last so that it cannot swallow a following positional option
        opts += ["-S"] + rng.sample(SEVERITY_GROUPS, rng.randint(1, 3))
    return opts
