"""helpers shared by the checks (workload builders, junk faults, parsing)"""
import json

from sim import pelgen

SELECTION_SETS = [
    [], [], ["-E"], ["-E"], ["-s"], ["-N"], ["-H"], ["-H", "-O"], ["-t"], ["-s", "-H"],
    ["-S", "Informational"], ["-O", "-S", "Unrecoverable"], ["-S", "Predictive", "Recovered"],
    ["-N", "-O"], ["-O", "-S", "Critical", "-t"], ["-S", "Symptom", "Diagnostic", "-H"],
    ["-s", "-O", "-S", "Predictive"], ["-E", "-O"],
]


def bmc_name(recipe):
    return "%s_%08X" % (recipe["commit"], recipe["eid"])


def make_names(rng, recipes, style=None, ext=None):
    style = style or rng.choice(["bmc", "plain", "mixed", "numeric"])
    names = []
    for i, r in enumerate(recipes):
        if style == "bmc":
            n = bmc_name(r)
        elif style == "plain":
            n = "pel%d" % i
        elif style == "numeric":
            # sorts differently as string and as number
            n = str(rng.choice([1, 2, 9, 10, 11, 100, 20, 3])) + "_%08X" % r["eid"]
        else:
            n = rng.choice([bmc_name(r), "log-%08X" % r["eid"], "PEL%02d" % i, "x%d" % (10 - i)])
        if ext:
            n += rng.choice(ext)
        while n in names:
            n += "_"
        names.append(n)
    return names


def apply_junk(data, junk):
    """storage-at-rest faults; `junk` = {kind, off, val, n, seed}"""
    k = junk["kind"]
    if k == "torn":
        return data[:junk["off"]]
    if k == "lost":
        return b""
    if k == "flip":
        off = junk["off"] % max(1, len(data))
        b = bytearray(data)
        b[off] = junk["val"] & 0xFF if (junk["val"] & 0xFF) != b[off] else (b[off] ^ 0x01)
        return bytes(b)
    if k == "garbage":
        import random
        r = random.Random(junk["seed"])
        return bytes(r.randrange(256) for _ in range(junk["n"]))
    if k == "foreign":
        return junk["text"].encode()
    raise ValueError(k)


def gen_junk(rng, data, offsets=None, kinds=None):
    k = rng.choice(kinds or ["torn", "torn", "flip", "flip", "lost", "garbage", "foreign"])
    if k == "torn":
        # bias: inside the two headers / on a section boundary / anywhere
        c = rng.random()
        if c < 0.35:
            off = rng.randrange(0, min(72, len(data)))
        elif c < 0.55 and offsets:
            off = rng.choice(offsets)[1] + rng.choice([-1, 0, 1, 4, 8])
        else:
            off = rng.randrange(0, len(data))
        off = max(0, min(len(data) - 1, off))
        return {"kind": "torn", "off": off}
    if k == "flip":
        c = rng.random()
        if c < 0.4:
            off = rng.randrange(0, min(72, len(data)))
        elif c < 0.7 and offsets:
            s = rng.choice(offsets)
            off = min(len(data) - 1, s[1] + rng.choice([0, 1, 2, 3, 4, 5, 6, 7, 8, 9, 10, 11]))
        else:
            off = rng.randrange(len(data))
        return {"kind": "flip", "off": off, "val": rng.choice([0x00, 0xFF, rng.randrange(256), 0x80, 0x01])}
    if k == "lost":
        return {"kind": "lost"}
    if k == "garbage":
        return {"kind": "garbage", "n": rng.choice([1, 7, 48, 71, 72, 100, 300]), "seed": rng.randrange(1 << 30)}
    return {"kind": "foreign", "text": rng.choice(['{\n    "Private Header": {}\n}\n', "PEL not found\n", "PH", "PHXX" * 30,
                                                   "#!/bin/sh\necho hi\n"])}


def parse_json_stream(text):
    """returns (ok, value) – exactly one JSON document, nothing else"""
    try:
        return True, json.loads(text)
    except (ValueError, RecursionError):
        return False, None


def split_hex_blocks(text):
    """--hex output -> list of bytes objects, or None if malformed"""
    from sim.hexparse import parse_dump_lines
    lines = text.split("\n")
    if lines and lines[-1] == "":
        lines.pop()
    blocks, cur = [], None
    for ln in lines:
        if ln == "-------------- PEL Begin  ----------------":
            if cur is not None:
                return None
            cur = []
        elif ln == "-------------- PEL End    ----------------":
            if cur is None:
                return None
            blocks.append(parse_dump_lines(cur))
            cur = None
        else:
            if cur is None:
                return None
            cur.append(ln)
    if cur is not None:
        return None
    return blocks
