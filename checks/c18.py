"""
C18 — parser modules are chosen by creator/component, fed the right data,
and contained.

Simulation: third-party parser modules are simulated peers.  A seeded
population of fake plugins (served through the real import machinery by a
sys.meta_path finder) with per-call behaviours healthy / raising / returning
None / raising ImportError (lazy optional dependency) / failing at import, plus
near-miss module names that must never be consulted; shipped plugins (osrc,
oe500, m2c00, ocallouts) run real.  A history of decodes runs in ONE
long-lived module set (so import caches are live), and again in a twin world
whose only difference is that every plugin is healthy.
"""
import hashlib
import json
import sys

from sim import pelgen, world
from sim.world import World
from checks import common, plug

PROPERTY = "C18"
LEVEL = "exploration"
MODES = ["O0"]
TIERS = {"quick": {"runs": 4000, "wall": 55}, "thorough": {"runs": 30000, "wall": 1500}}
RULE = ("plan = 2..5 seeded PELs whose UD/ED/SRC/callout sections target a seeded plugin population (2..10 fake "
        "modules with per-call fault tables + near-miss names; shipped plugins real) + -P in a fifth of the plans; "
        "history = -f on every PEL then -a on the directory in one module set, repeated in a healthy twin world.  "
        "distinct_nontrivial counts distinct abstract traces (per decode: sequence of (plugin kind, behaviour)) "
        "among plans in which at least one plugin fault fired or -P was set.")
COMPONENTS = {"real": ["pel.peltool.peltool.main() in-process", "parse_user_data / src / osrc dispatch and caches",
                       "shipped plugins osrc, oe500, m2c00, ocallouts", "io_drawer decoders (for the routing oracle)"],
              "stub": ["third-party parser modules (fake, behaviour = pure function of run seed, module, arguments)",
                       "pel_registry (fake, part of the runs)", "stdout capture"]}
ASSUMPTIONS = ["fake plugins model well-behaved / raising / None-returning modules; plugins that call sys.exit, spawn threads or mutate the tool's globals are outside the model",
               "for SRCs with a valid word count below 9 only the valid words are compared (the property speaks of words 2..9)",
               "plugins returning non-dict JSON or non-JSON text are not generated (status under the property unclear)"]
PROBES = ["transient_import_failure", "skip_after_warm_cache", "behaviour:raise", "behaviour:none", "behaviour:importerror", "import:ImportError", "import:SyntaxError",
          "skip_plugins", "osrc_subdispatch", "bsrc_route", "m2c00_routed", "callout_desc", "near_miss_present",
          "same_module_after_fault"]


def gen_plan(rng, tier, run):
    pels, plugins = plug.gen_world(rng)
    return {"pels": pels, "plugins": plugins, "skip_plugins": rng.random() < 0.2,
            "registry": common.gen_registry(rng, [p["recipe"] for p in pels]) if rng.random() < 0.3 else None,
            "order": {"policy": rng.choice(["perm", "asc", "desc"]), "key": rng.randrange(1 << 30)},
            # slow storage: virtual seconds per I/O event (delivers an interval timer the code under test left armed)
            "tick": rng.choice([0, 0, 0, 0, 0.5, 8.0])}


def run_history(plan, plugins):
    """returns list of per-op dicts + host + leaked module names"""
    ops = []
    with World(plugins=plugins, registry=plan["registry"]) as w:
        w.long_opts = bool(plan.get("long_opts"))
        w.fs.tick = float(plan.get("tick") or 0)
        common.put_store(w, "D", plan["pels"])
        host = w.host
        extra = ["-P"] if plan["skip_plugins"] else []
        for p in plan["pels"]:
            mark, imark = len(host.calls), len(host.import_log)
            r = w.run(["-f", "@/D/" + p["name"], "-E"] + extra)
            ops.append({"kind": "f", "pel": p, "res": r, "calls": host.calls[mark:], "imports": host.import_log[imark:]})
        mark, imark = len(host.calls), len(host.import_log)
        r = w.run(["-p", "@/D", "-a", "-E"] + extra, order=plan["order"])
        ops.append({"kind": "a", "res": r, "calls": host.calls[mark:], "imports": host.import_log[imark:]})
        if not plan["skip_plugins"]:
            # after the parser caches are warm: the same decodes with -P must not run a parser any more
            for p in plan["pels"][:2]:
                mark, imark = len(host.calls), len(host.import_log)
                r = w.run(["-f", "@/D/" + p["name"], "-E", "-P"])
                ops.append({"kind": "warmP", "pel": p, "res": r, "calls": host.calls[mark:], "imports": host.import_log[imark:]})
        if plan["skip_plugins"]:
            # the summary / look-up / json modes decode too: with -P they must not touch a parser module either
            some = plan["pels"][0]["recipe"]
            for argv in (["-l", "-E"], ["--plid", "%08X" % some["plid"]], ["--src", "B"], ["-n", "-E"], ["-i", "%08X" % some["eid"]],
                         ["--bmc-id", str(some["bmc_id"])], ["-j", "-o", "@/OUT", "-E"]):
                mark, imark = len(host.calls), len(host.import_log)
                w.mkdir("OUT")
                r = w.run(["-p", "@/D"] + argv + extra, order=plan["order"])
                ops.append({"kind": "other", "res": r, "calls": host.calls[mark:], "imports": host.import_log[imark:]})
        loaded = sorted(m for m in sys.modules if m.startswith(("udparsers.", "srcparsers.", "calloutparsers.")))
        # direct unit-level probe of the shipped I/O drawer plugin: always a JSON object
        m2, m2f = [], []
        for p in plan["pels"]:
            for s in p["recipe"]["sections"]:
                if s["kind"] in ("ud", "ed") and plug.ud_module(pelgen.section_creator(p["recipe"], s), s["comp"]) == "udparsers.m2c00.m2c00":
                    try:
                        import importlib
                        mod = importlib.import_module("udparsers.m2c00.m2c00")
                        out = mod.parseUDToJson(s["subtype"], s["ver"], memoryview(bytes.fromhex(s["payload"])))
                        m2.append((s, out, plug.m2c00_expectation(s)))
                    except Exception as e:      # noqa
                        m2.append((s, e, None))
                        continue
                    if s["subtype"] in (72, 73, 84) and s["ver"] in (1, 2):
                        # environment fault: the drawer type's definition file cannot be opened (EIO / EMFILE)
                        w.fs.begin_op(None, [{"on": "open_data", "nth": 0, "kind": "error", "errno": "EIO"}], None)
                        w.fs.active = True
                        try:
                            try:
                                out = mod.parseUDToJson(s["subtype"], s["ver"], memoryview(bytes.fromhex(s["payload"])))
                            except Exception as e:      # noqa
                                out = e
                        finally:
                            w.fs.active = False
                        if w.fs.ev.fired:
                            m2.append((s, out, ("error", bytes.fromhex(s["payload"]))))
                            m2f.append(1)
        parse = plug.repo_hexdump_parse()
    return ops, loaded, m2, parse


def V(cls, detail):
    return {"class": cls, "key": "C18:" + cls, "detail": detail}


def docs_of(op, plan):
    """[(pel, doc or None)] for an op"""
    r = op["res"]
    if op["kind"] == "f":
        ok, j = common.parse_json_stream(r.stdout) if r.stdout else (False, None)
        return [(op["pel"], j if ok and isinstance(j, dict) else None)]
    ok, j = common.parse_json_stream(r.stdout)
    by = {}
    if ok and isinstance(j, list):
        for d in j:
            try:
                by[int(d["Private Header"]["Entry Id"], 16)] = d
            except Exception:
                pass
    return [(p, by.get(p["recipe"]["eid"])) for p in sorted(plan["pels"], key=lambda p: p["name"])]


def execute(plan):
    stats = {}
    traces = set()

    def bump(k, n=1):
        stats[k] = stats.get(k, 0) + n

    class _Vio(list):
        def append(self, v):
            if all(x["key"] != v["key"] for x in self):
                list.append(self, v)
    vio = _Vio()
    plugins = plan["plugins"]
    skip = plan["skip_plugins"]
    ops, loaded, m2, parse = run_history(plan, plugins)
    tops, _, _, _ = run_history(plan, plug.healthy_twin(plugins))
    events = sum(len(o["res"].events) + len(o["calls"]) for o in ops + tops)
    h = hashlib.sha256()
    if any(s.get("near_miss") for s in plugins.values()):
        bump("near_miss_present")
    for m, s in plugins.items():
        if s.get("import", "ok") != "ok":
            bump("import:" + s["import"])
    any_fault = False
    faulted_modules = set()
    pending = {m: spec.get("transient", 0) for m, spec in plugins.items() if spec.get("transient")}
    for op, top in zip(ops, tops):
        r = op["res"]
        h.update(r.stdout.encode())
        h.update(repr([(c[0], c[1], c[3]) for c in op["calls"]]).encode())
        if r.exc or r.exit != 0:
            vio.append(V("bad-exit", "%s: exit=%r exc=%r stderr=%s" % (r.argv, r.exit, r.exc, r.stderr[-400:])))
            continue
        # ---- disabled
        if skip:
            bump("skip_plugins")
            bad_imports = [m for m in op["imports"] if m.startswith(("udparsers.", "srcparsers.", "calloutparsers."))]
            if bad_imports:
                vio.append(V("import-with-plugins-disabled", "%s imported %s" % (r.argv, bad_imports[:4])))
            if op["calls"]:
                vio.append(V("call-with-plugins-disabled", "%s called %s" % (r.argv, [(c[0], c[1]) for c in op["calls"][:4]])))
        if op["kind"] == "warmP":
            bump("skip_after_warm_cache")
            if op["calls"]:
                vio.append(V("call-with-plugins-disabled", "%s (after earlier decodes with plugins enabled in the same process) called %s" % (
                    r.argv, [(c[0], c[1]) for c in op["calls"][:4]])))
            continue
        if op["kind"] == "other":
            continue
        # ---- calls: right module, right data, exactly once per section
        pels = [op["pel"]] if op["kind"] == "f" else sorted(plan["pels"], key=lambda p: p["name"])
        exp = []
        exp_by_pel = {}
        for p in pels:
            ts = set()
            ec = plug.expected_calls(p["recipe"], plugins, skip, pending, ts)
            exp_by_pel[p["name"]] = (ec, ts)
            if ts:
                bump("transient_import_failure", len(ts))
            exp += [(p["name"],) + e for e in ec]
        act = list(op["calls"])
        tr = []
        i = 0
        for ei, e in enumerate(exp):
            # the property fixes which module is consulted and what it receives, not how often: identical
            # repetitions of the call just matched are skipped unless the next expected call is that same call
            nxt = exp[ei] if False else None
            while i > 0 and i < len(act) and (act[i][0], act[i][1], act[i][2]) == (act[i - 1][0], act[i - 1][1], act[i - 1][2]) \
                    and not plug.calls_match(e[1:], act[i]):
                i += 1
            if i < len(act) and plug.calls_match(e[1:], act[i]):
                b = act[i][3]
                tr.append("%s:%s" % (plugins[e[2]]["type"], b))
                bump("behaviour:" + b)
                if b not in ("ok",):
                    any_fault = True
                if e[2] in faulted_modules:
                    bump("same_module_after_fault")
                if b in ("raise", "none", "importerror", "keyerror", "modulenotfound", "raise_noargs"):
                    faulted_modules.add(e[2])
                if e[2].startswith("srcparsers.o") and e[2] != "srcparsers.osrc.osrc":
                    bump("osrc_subdispatch")
                if e[2] == "srcparsers.bsrc.bsrc" and e[4][0][:2] == "BC" and any(p["recipe"]["creator"] == "O" for p in pels):
                    bump("bsrc_route")
                if e[3] == "getMaintProcDesc":
                    bump("callout_desc")
                i += 1
                continue
            got = act[i] if i < len(act) else None
            if got is not None and got[0] == e[2] and got[1] == e[3]:
                vio.append(V("wrong-arguments", "%s: %s.%s for section %d of %s was called with %r, expected %r" % (
                    r.argv, e[2], e[3], e[1], e[0], _short(got[2]), _short(e[4]))))
                i += 1
            else:
                vio.append(V("missing-call", "%s: expected call %s.%s%s for section %d of %s, but next logged call is %s; earlier calls in this module set: %s" % (
                    r.argv, e[2], e[3], _short(e[4]), e[1], e[0], (got[0], got[1], _short(got[2])) if got else None,
                    [(c[0].split(".")[-1], c[3]) for o in ops[:ops.index(op) + 1] for c in o["calls"]][-8:])))
            break
        else:
            while 0 < i < len(act) and (act[i][0], act[i][1], act[i][2]) == (act[i - 1][0], act[i - 1][1], act[i - 1][2]):
                i += 1
            if i < len(act):
                g = act[i]
                cls = "near-miss-module-consulted" if plugins.get(g[0], {}).get("near_miss") else "unexpected-call"
                vio.append(V(cls, "%s: unexpected call %s.%s%s" % (r.argv, g[0], g[1], _short(g[2]))))
        # ---- containment against the healthy twin
        for (p, doc), (_, tdoc) in zip(docs_of(op, plan), docs_of(top, plan)):
            rec = p["recipe"]
            if tdoc is None:
                vio.append(V("pel-not-decoded", "healthy world: %s produced no document for %s; stderr=%s" % (top["res"].argv, p["name"], top["res"].stderr[-300:])))
                continue
            if doc is None:
                fired = [(c[0].split(".")[-1], c[1], c[3]) for c in op["calls"] if c[3] != "ok"]
                vio.append(V("fault-not-contained-pel-lost", "%s produced no document for %s although only plugin calls misbehaved (%s); stderr=%s" % (
                    r.argv, p["name"], fired[:6], r.stderr[-300:])))
                continue
            keys, tkeys = plug.section_keys(doc), plug.section_keys(tdoc)
            if keys != tkeys or len(keys) != len(rec["sections"]):
                vio.append(V("fault-not-contained-sections", "%s: sections %s vs healthy %s (recipe has %d)" % (r.argv, keys, tkeys, len(rec["sections"]))))
                continue
            calls_by_section = {}
            ec, transient_idx = exp_by_pel.get(p["name"], ([], set()))
            for e in ec:
                calls_by_section.setdefault(e[0], []).append(e)
            for idx, (k, s) in enumerate(zip(keys, rec["sections"])):
                sec, tsec = doc[k], tdoc[k]
                state = plug.decoder_state(rec, s, plugins, skip)
                behaviours = [world.choose_behaviour(plugins[e[1]], e[2], e[3]) for e in calls_by_section.get(idx, [])]
                import_failed = False
                if s["kind"] == "src" and not skip:
                    ms = [plug.src_module(rec["creator"]) if rec["creator"] != "O" else plug.osrc_sub(s["ascii"]), plug.callout_module(rec["creator"])]
                    import_failed = any(m in plugins and plugins[m].get("import", "ok") != "ok" for m in ms)
                if state and state.startswith("import-failed"):
                    import_failed = True
                if idx in transient_idx:
                    import_failed = True
                healthy = all(b == "ok" for b in behaviours) and not import_failed
                if healthy:
                    if sec != tsec:
                        vio.append(V("fault-not-contained", "%s: section %r of %s differs from the healthy world although its own parser calls were healthy: %s vs %s; misbehaving calls so far: %s" % (
                            r.argv, k, p["name"], _short(sec), _short(tsec),
                            [(c[0].split(".")[-1], c[3]) for o in ops[:ops.index(op) + 1] for c in o["calls"] if c[3] != "ok"][:6])))
                    continue
                any_fault = True
                if s["kind"] == "src":
                    a, b = dict(sec), dict(tsec)
                    a.pop("SRC Details", None)
                    b.pop("SRC Details", None)
                    a, b = _strip_desc(a), _strip_desc(b)
                    if a != b:
                        vio.append(V("fault-not-contained", "%s: SRC section %r of %s differs beyond 'SRC Details'/callout descriptions: %s vs %s" % (
                            r.argv, k, p["name"], _short(a), _short(b))))
                    srcb = [bh for e, bh in zip(calls_by_section.get(idx, []), behaviours) if e[2] == "parseSRCToJson"]
                    if srcb and srcb[0] in ("raise", "none", "null", "empty", "importerror", "modulenotfound", "raise_noargs") and "SRC Details" in sec:
                        vio.append(V("src-details-from-failed-parser", "%s: section %r has SRC Details although its parser %s" % (r.argv, k, srcb[0])))
                else:
                    b0 = behaviours[0] if behaviours else None
                    payload = bytes.fromhex(s["payload"])
                    if b0 in ("raise", "none", "keyerror", "importerror", "modulenotfound", "raise_noargs") or import_failed:
                        if not plug.payload_recoverable(sec, payload, parse):
                            vio.append(V("failed-parser-no-hexdump", "%s: section %r (parser %s) carries no hex dump of its payload: %s" % (r.argv, k, b0 or state, _short(sec))))
                        needs_note = b0 in ("raise", "none", "keyerror", "importerror", "modulenotfound", "raise_noargs")
                        if needs_note and not isinstance(sec.get("Error"), str):
                            vio.append(V("failed-parser-no-error-note", "%s: section %r: parser call %s but the section has no error note: %s" % (r.argv, k, b0, _short(sec))))
            tr.append("|")
        if tr:
            traces.add("%s:%s" % (op["kind"], ",".join(tr)) + ("|P" if skip else ""))
    # ---- shipped I/O drawer plugin routing
    for s, out, expn in m2:
        bump("m2c00_routed")
        if isinstance(out, Exception):
            vio.append(V("m2c00-raised", "udparsers.m2c00.parseUDToJson(%d, %d, <%d bytes>) raised %r" % (s["subtype"], s["ver"], len(s["payload"]) // 2, out)))
            continue
        try:
            j = json.loads(out)
        except Exception:
            j = None
        if not isinstance(j, dict):
            vio.append(V("m2c00-not-object", "m2c00.parseUDToJson(%d, %d, ...) returned %r" % (s["subtype"], s["ver"], str(out)[:100])))
            continue
        kind, val = expn
        if kind == "lines" and j != val:
            vio.append(V("m2c00-routing", "sub-type %d version %d: plugin output keys %s differ from the stand-alone decoder for that drawer type (%s)" % (
                s["subtype"], s["ver"], list(j.keys()), list(val.keys()))))
        elif kind == "data" and val not in plug.recover(j.get("Data"), parse):
            vio.append(V("m2c00-routing", "unsupported sub-type %d: output does not hex-dump the payload: %s" % (s["subtype"], _short(j))))
        elif kind == "error" and not (isinstance(j.get("Error"), str) and val in plug.recover(j.get("Data"), parse)):
            vio.append(V("m2c00-routing", "sub-type %d with unsupported version %d: expected error note + hex dump, got %s" % (s["subtype"], s["ver"], _short(j))))
    if skip and loaded:
        vio.append(V("modules-loaded-with-plugins-disabled", "sys.modules holds %s after a history run entirely with -P" % loaded[:5]))
    nontrivial = any_fault or skip
    sample = {"pels": [{"name": p["name"], "creator": p["recipe"]["creator"],
                        "sections": [(s["id"], s.get("comp")) for s in p["recipe"]["sections"]]} for p in plan["pels"]],
              "plugins": {m: {"type": s["type"], "import": s.get("import", "ok"), "weights": s["weights"]} for m, s in plugins.items()},
              "skip_plugins": skip, "calls": [(c[0], c[1], c[3]) for o in ops for c in o["calls"]][:20]}
    return {"violations": list(vio), "stats": stats, "traces": sorted(traces) if nontrivial else [], "events": events,
            "evals": len(ops) * 2, "digest": h.hexdigest(), "sample": sample}


def _strip_desc(sec):
    sec = json.loads(json.dumps(sec))
    for c in (sec.get("Callout Section") or {}).get("Callouts", []):
        if isinstance(c, dict):
            c.pop("Description", None)
    return sec


def _short(x, n=300):
    s = repr(x)
    return s if len(s) <= n else s[:n] + "..."


def shrink_candidates(plan, violation):
    P = lambda: json.loads(json.dumps(plan))
    for i in range(len(plan["pels"]) - 1, -1, -1):
        if len(plan["pels"]) > 1:
            c = P()
            del c["pels"][i]
            yield c
    for i, p in enumerate(plan["pels"]):
        for j in range(len(p["recipe"]["sections"]) - 1, -1, -1):
            c = P()
            del c["pels"][i]["recipe"]["sections"][j]
            yield c
    for m in list(plan["plugins"]):
        c = P()
        del c["plugins"][m]
        yield c
    for m, s in plan["plugins"].items():
        if s.get("import", "ok") != "ok":
            c = P()
            c["plugins"][m]["import"] = "ok"
            yield c
        for b, wgt in s["weights"].items():
            if b != "ok" and wgt:
                c = P()
                c["plugins"][m]["weights"][b] = 0
                yield c
    if plan["registry"]:
        c = P()
        c["registry"] = None
        yield c
    if plan["order"]["policy"] != "asc":
        c = P()
        c["order"] = {"policy": "asc", "key": 0}
        yield c
